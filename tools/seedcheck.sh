#!/bin/bash
# tools/seedcheck.sh <seed-src-dir> <seed-id> <PROP> [PROP...]
#   seed-src-dir contains patch.diff, zz_seed_demo_test.go, notes.md (from a seeding sub-agent)
# 1. confirms in a scratch worktree: patch applies, builds, demo fails with / passes without the patch,
#    existing tests of the touched module subtree pass with the patch (full suite with FULL=1)
# 2. runs the given checks (quick tier) against the patched scratch worktree (VERIF_REPO) and reports
# 3. stores the seed under /verif/seeded/<seed-id>/ with meta.json
set -u
SRC="$1"; ID="$2"; shift 2
export PATH=/opt/veriftools/go1.26.8/bin:$PATH
WT=/tmp/wt/run-$ID
LOG=/tmp/seedlogs/$ID; mkdir -p $LOG
git -C /repo worktree remove --force $WT >/dev/null 2>&1
git -C /repo worktree add -f --detach $WT HEAD >/dev/null 2>&1 || { echo "cannot create worktree"; exit 2; }
trap 'git -C /repo worktree remove --force $WT >/dev/null 2>&1' EXIT
DEMODIR=$(grep -o -E '(pkg|cmd)/[A-Za-z0-9_/.-]+' "$SRC/notes.md" | head -1)
if [ -n "${DEMO_DIR:-}" ]; then DEMODIR=$DEMO_DIR; fi
DEMODIR=${DEMODIR%/}
[ -d "$WT/$DEMODIR" ] || DEMODIR=$(dirname $DEMODIR)
echo "seed $ID demo dir: $DEMODIR"
GOENV="env PATH=${PATH#/opt/veriftools/go1.26.8/bin:} GOFLAGS=-mod=mod GOPROXY=off"
cp "$SRC/zz_seed_demo_test.go" "$WT/$DEMODIR/zz_seed_demo_test.go"
if [ "${SKIPTESTS:-0}" = 1 ]; then R0=0; else
(cd $WT && $GOENV go test -vet=off -count=1 ./$DEMODIR/ -run 'Seed' > $LOG/demo_without.log 2>&1); R0=$?
fi
(cd $WT && git apply "$SRC/patch.diff") || { echo "patch does not apply"; exit 2; }
(cd $WT && $GOENV go build ./... > $LOG/build.log 2>&1); RB=$?
(cd $WT && $GOENV go test -vet=off -count=1 ./$DEMODIR/ -run 'Seed' > $LOG/demo_with.log 2>&1); R1=$?
rm -f "$WT/$DEMODIR/zz_seed_demo_test.go"
SUB=${SUB:-./pkg/...}
if [ "${FULL:-0}" = 1 ]; then SUB=./...; fi
if [ "${SKIPTESTS:-0}" = 1 ]; then RT=skipped; else
(cd $WT && $GOENV go test -vet=off -count=1 -timeout 25m $SUB > $LOG/tests_with.log 2>&1)
RT=$(grep -E '^(FAIL|---.FAIL)' $LOG/tests_with.log | grep -v -E 'integration_tests|env-tests|queuecontroller/controllers\s|queuecontroller/controllers$|\[setup failed\]|\[build failed\]' | grep -v -E 'pkg/(binder/controllers/integration_tests|env-tests|operator/controller/integration_tests|queuecontroller/controllers)\b' | head -5 | tr '\n' ';')
fi
echo "demo without patch exit=$R0 (want 0); build=$RB (want 0); demo with patch exit=$R1 (want !=0); existing-test failures with patch: [${RT}]"
RES=""
for P in "$@"; do
  ( cd /verif && ./bin/symgo -prop $P -tier ${TIER:-quick} -deadline ${DEADLINE:-600s} ${RUNRE:+-run $RUNRE} -repo $WT -out /tmp/seedout/$ID/$P -evidence /tmp/seedout/$ID/$P.json > $LOG/check_$P.log 2>&1 ); RC=$?
  V=$(grep -c '^VIOLATION' $LOG/check_$P.log)
  echo "check $P on seed $ID: exit=$RC violations=$V $(grep -m2 'assertion=' $LOG/check_$P.log | tr '\n' ' ')"
  RES="$RES $P:exit=$RC:violations=$V"
done
mkdir -p /verif/seeded/$ID
cp "$SRC/patch.diff" "$SRC/zz_seed_demo_test.go" /verif/seeded/$ID/
cp "$SRC/notes.md" /verif/seeded/$ID/notes.md
python3 - "$ID" "$DEMODIR" "$R0" "$RB" "$R1" "$RT" "$RES" "$@" <<'PY'
import json,sys,os
id_,demodir,r0,rb,r1,rt,res=sys.argv[1:8]; props=sys.argv[8:]
meta={"seed_id":id_,"breaks_property":props[0],"demo_dir":demodir,
 "confirmed":{"demo_passes_without_patch":r0=="0","builds_with_patch":rb=="0","demo_fails_with_patch":r1!="0","existing_test_failures_with_patch":rt},
 "checks_run":res.split(),"needs_to_manifest":"see notes.md",
 "commands":["tools/seedcheck.sh <src> %s %s"%(id_," ".join(props))]}
try:
    old=json.load(open(f"/verif/seeded/{id_}/meta.json"))
    for k in ("note","summary","needs_to_manifest"):
        if k in old and old[k] and old[k]!="see notes.md": meta[k]=old[k]
    if rt=="skipped" and "confirmed" in old:
        meta["confirmed"]["existing_test_failures_with_patch"]=old["confirmed"].get("existing_test_failures_with_patch","")
        meta["confirmed"]["demo_passes_without_patch"]=old["confirmed"].get("demo_passes_without_patch",True)
except Exception: pass
json.dump(meta,open(f"/verif/seeded/{id_}/meta.json","w"),indent=1)
PY
