#!/bin/bash
# tools/allchecks.sh quick|thorough [PROP...]: runs the checks one after the other, prints one line each
cd "$(dirname "$0")/.."
TIER=${1:-quick}; shift
PROPS=${@:-C01 C02 C03 C04 C05 C06 C07 C08 C09 C10 C11 C12 C13 C14 C15 C16 C17 C19 C20}
for p in $PROPS; do s=$(date +%s); ./check $p $TIER > /tmp/allchecks_$p.$TIER.log 2>&1; rc=$?; echo "$p $TIER exit=$rc t=$(( $(date +%s)-s ))s $(grep -c '^VIOLATION' /tmp/allchecks_$p.$TIER.log) violations; $(grep -m1 'INCONCLUSIVE' /tmp/allchecks_$p.$TIER.log | cut -c1-200)"; done
