#!/usr/bin/env python3
"""Regenerates /verif/MANIFEST.json from the table below (claimed checks) + not_applicable."""
import json, os
ROOT = os.path.dirname(os.path.dirname(os.path.abspath(__file__)))
props = [json.loads(l)['id'] for l in open(os.path.join(ROOT, 'properties.jsonl'))]

TECH = "bounded symbolic execution of the real go/ssa (symgo) + SMT (z3 4.8.12 incremental; cvc5/z3 one-shot portfolio); counterexamples and sampled paths replayed on the native build"
NOTE = ("Bounded: structures and bit-widths as listed in evidence.bounds/assumptions and DESIGN.md section 5; "
        "trusted base: go/ssa construction, the engine's instruction semantics (cross-checked on every run by native replay of sampled paths), "
        "the listed stubs (logging, metrics, fmt, sync no-ops, goroutines run to completion), z3/cvc5.")

claimed = {
 "C19": dict(cat="model_checking",
   text="For every result strconv.ParseFloat can return for the gpu-fraction annotation (symbolic IEEE double incl. NaN/Inf, or an error), and every byte string of length 1..3 (quick) / 1..5 plus all 19- and 20-digit decimal strings (thorough) for gpu-memory and gpu-fraction-num-devices pushed through the real ParseInt/ParseUint code, the solver decides that admission (GPUSharing.Validate), the binder validator and the scheduler's PodInfo construction agree: accepted => finite positive quantity, same request type, portion, memory and device count in the scheduler; sharing-disabled and malformed requests rejected. All presence combinations of the three annotations x whole-GPU limit x sharing switch. Bounded model checking is the right level: the inputs are scalars/strings and the code is loop-free or string-length bounded.",
   ref="DESIGN.md section 5 C19"),
 "C12": dict(cat="model_checking",
   text="Binder side of the hand-off, decided inductively: the real BindRequestReconciler.Reconcile (+UpdateStatus, updatePodCondition) is executed on an in-memory API store from an ARBITRARY stored status (phase, failedAttempts in [0,2^30), backoffLimit nil or any int32) with the bind failing or succeeding; the solver decides for all those values that the attempt count is persisted (+1 while below the limit), that the request is observably failed to the scheduler (real BindRequestInfo.IsFailed on the stored object) once the reconciler stops retrying, that a Succeeded request is a no-op; plus the k-step loop for limits 1..4 (quick)/1..8 (thorough): at most limit retries, terminates, ends IsFailed. One inductive step from every stored state covers retry histories of any length. Scheduler-side charging of pending BindRequests is covered by the C14/C01 harness family where built; true two-process interleavings are outside (shared store with atomic API calls, step of either side from every stored state).",
   ref="DESIGN.md section 5 C12"),
 "C08": dict(cat="model_checking",
   text="One inductive step, decided by the solver for all values: from ANY state of a queue chain (depth 1..2 quick / 1..3 thorough; per queue limit, deserved quota (each possibly -1 = unlimited), allocated and non-preemptible allocated as symbolic integers) that satisfies the property's invariant, the real decision pipeline - CapacityPolicy.IsJobOverQueueCapacity, then per task IsTaskAllocationOnNodeOverCapacity (real NodeInfo.GetRequiredInitQuota), real NodeInfo.AddTask (sets AcceptedResource) and the real proportion allocate handler - re-establishes 'allocated <= limit' and 'non-preemptible allocated <= deserved' at every level. Whole-resource variant: 1..2 tasks, one resource dimension at a time (cpu / memory / whole GPUs). Fractional variant: fraction and gpu-memory requests from a menu x 1..2 devices on 1000 MiB GPUs, GPU dimension, integer+decimal arithmetic decided exactly without the FP theory. An inductive invariant covers histories of any length.",
   ref="DESIGN.md section 5 C08"),
 "C07": dict(cat="model_checking",
   text="The real Reclaimable.CanReclaimResources + Reclaimable.Reclaimable (reclaimResourcesFromReclaimees, subtractReclaimedResources, reclaimingQueuesRemainWithinBoundaries, saturation ratios, both reclaim strategies) are executed on two queue trees (sibling top queues; reclaimer under a parent vs a top-level reclaimee) with every per-queue number symbolic (deserved, limit incl. -1, fair share, allocated, non-preemptible; integers < 2^12), symbolic reclaimer request and 1 (quick) / 1..2 (thorough) symbolic victims, one resource dimension at a time. Whenever both accept, the solver decides for all values: each victim was taken from a leveled queue above its deserved quota or above its allocatable fair share; the reclaimer stays within its fair share; a non-preemptible reclaimer keeps non-preemptible allocation within deserved quota at every level; the reclaimer's ancestor does not end above its fair share while at least as saturated as the sibling (oracle compares ratios by cross-multiplication, independently of the code's division; float ratios are encoded exactly as rationals, no FP theory). Pre-states are constrained by the invariants of C08/C09 (listed in assumptions).",
   ref="DESIGN.md section 5 C07"),
 "C10": dict(cat="model_checking",
   text="Kernel K1 (queue graphs): every parent assignment of N=3 (quick) / 4 (thorough) Queue objects - parent none, any queue including itself, or a missing queue, (N+2)^N graphs - goes through the real cluster_info.UpdateQueueHierarchy and then through every queue-hierarchy walker of the proportion plugin, capacity policy and reclaimable with a job in each surviving queue; a panic or a loop exceeding 64 iterations on a feasible path is the violation (non-termination witness by pigeonhole over N queues) and is replayed natively with a timeout; queues of well-formed graphs must all survive (healthy workloads still scheduled). This kernel explores structure by case-splitting (Choose), the quantities are concrete; symbolic-number kernels for malformed pod groups and GPU annotations are listed under C10 in DESIGN.md as they are added.",
   ref="DESIGN.md section 5 C10"),
 "C13": dict(cat="model_checking",
   text="Every well-formed program of L=3 (quick) / 4 (thorough) statement operations - Allocate, Pipeline (both updateTaskIfExistsOnNode values where the actions can pass them), Evict, Unevict, Checkpoint, Rollback(any earlier checkpoint), end - over 2 tasks / 1 node (quick) or 3 tasks / 2 nodes (thorough), from every initial session state (each task Pending, Running or Releasing, placed by the real NodeInfo.AddTask) with symbolic node capacity and task requests, is run through the real framework.Statement on a session with the real proportion allocate/deallocate handlers. After Discard, and after every Rollback, the solver decides term-by-term equality of a canonical dump (node idle/used/releasing in structured and vector form, shared-GPU maps, pods on node, task status/node/groups/virtual flag, job allocated + status index + counters + pod-set counters, queue allocated and non-preemptible at both levels) with the dump taken at that point, and that the cache saw no call; after Commit, each pod is bound, nominated or evicted at most once and exactly the pods whose final virtual status is Allocated / Pipelined / Releasing. Exhaustive over programs within the bound; quantities symbolic.",
   ref="DESIGN.md section 5 C13"),
 "C20": dict(cat="model_checking",
   text="Status controllers, decided over real resource.Quantity arithmetic with symbolic values: (a) pod group controller: metadata.GetPodMetadata (non GPU-sharing path), PodGroupMetadata.AddPodMetadata/SumResources, patcher.getStatusWithMetadata and ShouldUpdatePodGroupStatus on 1..2 (quick) / 1..3 (thorough) pods with any phase, any PodScheduled condition, symbolic cpu quantities, symbolic current preemptibility and an ARBITRARY previously stored status: requested/allocated equal the sums by phase recomputed by the harness, allocatedNonPreemptible equals allocated iff the group is currently non-preemptible and is empty otherwise (covers preemptibility flips), and a second reconcile writes nothing; (b) queue controller: the real ResourceUpdater.UpdateQueue over an in-memory store with indexed lists: two child queues with 3 pod groups (symbolic allocated / non-preemptible / requested) under a parent, arbitrary stale stored statuses, children reconciled in either order then the parent: every level equals the sums, and the reconcile is idempotent. The operator's deployment fixpoint and fractional/DRA extraction are outside (reflection-driven diffing; ConfigMap and claim lookups).",
   ref="DESIGN.md section 5 C20"),
 "C16": dict(cat="model_checking",
   text="Order kernels, decided for all int32 priorities and all creation times: (K1) the session's real job order (Session.JobOrderFn with the real priority and elastic order functions in default-configuration order and the creation-time/UID tail) on three same-shape pending jobs is irreflexive, asymmetric, total and transitive, puts higher priority first and the older job first at equal priority; (K2) the scheduler's real PriorityQueue (container/heap) driven by that order pops three such jobs - pushed in any permutation, optionally after a pop/re-push - never lower priority before higher nor younger before older among equals. The allocate action around the queue (queue order across leaf queues, JobsOrderByQueues re-ordering) is not executed: whether a placed lower-priority job can coexist with an unplaced higher one at action level is outside this check.",
   ref="DESIGN.md section 5 C16"),
 "C06": dict(cat="model_checking",
   text="Victim-eligibility kernels, decided for all values: (a) the real preempt filter (actions/preempt.buildFilterFuncForPreempt with the real minruntime plugin registered through its OnSessionOpen): symbolic preemptibility, int32 priorities of both jobs, victim queue, active pod, start time (age 0..1023 h) and per-queue preempt min-runtimes (unset or 0..1023 h) on a 3-level queue chain; accepted => preemptible, same queue, strictly lower priority, has active pods, age >= the min-runtime resolved by the documented rule (oracle walks the harness's own tree). (b) the real reclaim victims queue (actions/reclaim.getOrderedVictimsQueue -> JobsOrderByQueues.InitializeWithJobs with FilterNonPreemptible/FilterNonActiveAllocated + minruntime reclaim filter) for LCA and queue resolution on a two-tree hierarchy; accepted => preemptible, other queue, active pods, age >= documented resolution. Time is the engine's deterministic clock and durations are whole hours. Elastic-victim scenario validators, consolidation's re-placement rule and the evict/place co-commit are not yet covered by a kernel (co-commit partly by C13's commit kernel).",
   ref="DESIGN.md section 5 C06"),
 "C03": dict(cat="model_checking",
   text="Gang kernels, decided for every status assignment and every symbolic minAvailable in [1,n] of K=1..2 pod sets x n=2 (quick) / 3 (thorough) tasks, with the session's real pod-set order (Session.PodSetOrderFn + the real subgrouporder plugin): (K1) real podgroup_info.GetTasksToAllocate - a pod set below its minimum gets exactly min-active pending tasks in one attempt (never a partial gang), a satisfied job grows by at most one task, only pending tasks, none twice; (K2) real GetTasksToEvict - the eviction unit keeps every pod set at/above its minimum or takes every active task, and the partial flag is truthful; (K3) real PodGroupInfo.ShouldPipelineJob is true exactly when a pod set has a nominated task and fewer than its minimum of other active tasks. Action-level gang commit (AllocateJob + Statement.Commit) is covered only through C13's commit kernel; hierarchical sub-group sets are outside.",
   ref="DESIGN.md section 5 C03"),
 "C02": dict(cat="model_checking",
   text="A node with G in {1,2,3} GPUs holds 0..2 GPU-memory sharers (running or terminating, on one of two groups, memory requests SYMBOLIC) and a whole-GPU pod, all placed by the real NodeInfo.AddTask; a new GPU-memory request (boundary menu relative to the device memory, 1..2 devices) is placed by the real Session.FittingNode + allocateTaskToNode -> gpu_sharing.AllocateFractionalGPUTaskToNode (FittingGPUs, GetNodePreferableGpuForSharing, IsTaskFitOnGpuGroup, EnoughIdleResourcesOnGpu, shared-GPU accounting) and committed. The solver decides for all sharer memories: a task that is Allocated (to be bound) joins only groups whose occupying sharers (incl. terminating) still fit the device; groups in use + whole GPUs <= GPU count; a request for N devices gets N distinct groups; a task relying on terminating memory is only nominated and no Bind is emitted for it. Device memory and the new request are concrete menu values because the derived portion ceil(m/T*100)/100 steers control flow and is computed with real IEEE arithmetic; fraction-annotation requests and GPU ordering plugins are outside.",
   ref="DESIGN.md section 5 C02"),
 "C01": dict(cat="model_checking",
   text="On a node holding 0..2 pods in any mix of running / terminating / allocated-this-cycle / nominated statuses (pre-state built by the real NodeInfo.AddTask, constrained only to reachable states), 1 (quick) / 2 (thorough) new tasks are placed by the real Session.FittingNode + actions/common.allocateTaskToNode (IsTaskAllocatable, IsTaskAllocatableOnReleasingOrIdle, Statement.Allocate/Pipeline) and the statement is committed against a cache whose Bind may fail; node capacity and every request are symbolic in one dimension at a time (milli-cpu, whole GPUs, pod slots with regular pods, pod slots with best-effort pods). The solver decides for all values: after commit the pods occupying the node (running, terminating, bound, binding, allocated - recomputed from the pod list) never exceed allocatable; a task that needs terminating capacity is only nominated and never bound; a failed bind restores the node's idle/used/releasing. Fractional GPUs are C02's harnesses; multi-node cycles, MIG and DRA are outside.",
   ref="DESIGN.md section 5 C01"),
 "C14": dict(cat="model_checking",
   text="Same programs as C13: after snapshot-style construction and after every statement operation, the solver decides that every incrementally maintained aggregate equals ground truth recomputed by the harness from the task list only: node Used = sum of active pods, Releasing = releasing - pipelined, Idle = allocatable - (used - pipelined), pod counts, vector == structured form; job Allocated, status index membership, active-allocated counter; queue allocated / non-preemptible allocated at both hierarchy levels = bound plus nominated pods. One resource dimension (cpu or whole GPUs) symbolic at a time.",
   ref="DESIGN.md section 5 C14"),
}

na_reasons = {}
DEFAULT_NA = "check not built yet (build in progress; see DESIGN.md section 9 build order)"

checks = []
for pid in props:
    if pid in claimed:
        c = claimed[pid]
        checks.append({
            "property_id": pid,
            "quick_cmd": f"./check {pid} quick",
            "thorough_cmd": f"./check {pid} thorough",
            "evidence_file": f"/verif/evidence/{pid}.json",
            "replay_cmd_template": f"./check {pid} --replay {{path}}",
            "engine": "symgo",
            "level_claimed": {"category": c["cat"], "text": c["text"], "design_ref": c["ref"]},
            "level_note": c.get("note", NOTE),
            "technique": c.get("tech", TECH),
        })
m = {
 "version": 1,
 "setup_cmd": "cd /verif/engine && PATH=/opt/veriftools/go1.26.8/bin:$PATH GOTOOLCHAIN=local GOFLAGS=-mod=mod GOPROXY=off GOSUMDB=off go build -o ../bin/symgo ./cmd/symgo",
 "hooks": {"guard": "verif", "enable": "none needed: harnesses (/verif/harness/**) and the runtime package are injected with go/packages Overlay (engine) and `go test -overlay` (native replay); /repo contains no hook code",
           "baseline_off_cmd": "cd /repo && go test -mod=mod -vet=off -count=1 -timeout 25m ./...", "source_commits": [], "add_only": True},
 "engines": [{"name": "symgo", "path": "/verif/engine", "serves_properties": sorted(claimed.keys()),
              "kind_free_text": "symbolic executor for go/ssa (fork of x/tools/go/ssa/interp with symbolic scalars), stateless DFS by re-execution, SMT-LIB2 to z3/cvc5, native replay via go test -overlay"}],
 "checks": checks,
 "not_applicable": [{"property_id": p, "reason": na_reasons.get(p, DEFAULT_NA)} for p in props if p not in claimed],
 "notes": "Exit codes of ./check: 0 property held on everything explored (KNOWN-FINDING lines possible), 1 replay-confirmed unlisted violation, 2 machinery error / inconclusive (never on the unchanged tree).",
}
json.dump(m, open(os.path.join(ROOT, 'MANIFEST.json'), 'w'), indent=1)
print("claimed:", sorted(claimed.keys()))
