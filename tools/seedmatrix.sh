#!/bin/bash
# Re-runs every stored seed against its property's quick check (demo/test confirmation skipped: done when the seed was stored).
cd /verif
for d in seeded/*/; do
  id=$(basename $d); prop=${id%%-*}
  [ -f $d/meta.json ] || continue
  demo=$(python3 -c "import json;print(json.load(open('$d/meta.json'))['demo_dir'])")
  extra=""
  case $id in
    C01-A) extra="C02";; C08-B) extra="C13";; C17-*) prop=C17; extra="C11";; C05-B) extra="C07";; C04-*) prop=C04;; C15-*) extra="C07";;
  esac
  cp -r $d /tmp/seedsrc-$id
  DEMO_DIR=$demo SKIPTESTS=1 tools/seedcheck.sh /tmp/seedsrc-$id $id $prop $extra 2>&1 | grep -E "^check|does not apply" | cut -c1-260
  rm -rf /tmp/seedsrc-$id
done
python3 tools/seedtable.py | head -3
