#!/usr/bin/env python3
"""Writes seeded/README.md: one line per seeded change and which checks flag it (from seeded/*/meta.json)."""
import json, glob, os
ROOT = os.path.dirname(os.path.dirname(os.path.abspath(__file__)))
rows = []
for d in sorted(glob.glob(os.path.join(ROOT, 'seeded', '*'))):
    mp = os.path.join(d, 'meta.json')
    if not os.path.isfile(mp):
        continue
    m = json.load(open(mp))
    caught = [c.split(':')[0] for c in m.get('checks_run', []) if c.split(':')[1] == 'exit=1']
    missed = [c.split(':')[0] for c in m.get('checks_run', []) if c.split(':')[1] == 'exit=0']
    other = [c for c in m.get('checks_run', []) if c.split(':')[1] not in ('exit=0', 'exit=1')]
    note = m.get('note', '')
    rows.append((m['seed_id'], m['breaks_property'], ','.join(caught) or '-', ','.join(missed) or '-', ','.join(other), m.get('summary', ''), note))
with open(os.path.join(ROOT, 'seeded', 'README.md'), 'w') as f:
    f.write('| seed | property | flagged by | run without alarm | inconclusive | what the change does | note |\n|---|---|---|---|---|---|---|\n')
    for r in rows:
        f.write('| ' + ' | '.join(r) + ' |\n')
print(len(rows), 'seeds;', sum(1 for r in rows if r[2] != '-'), 'flagged by at least one check')
for r in rows:
    print(r[0], 'caught by', r[2], '| quiet:', r[3], r[4])
