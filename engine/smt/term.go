// Package smt is a small hash-consed term language over booleans, bit-vectors (width <= 64) and
// IEEE-754 doubles, with constant folding, serialised to SMT-LIB2 text.
package smt

import (
	"fmt"
	"io"
	"math"
	"math/bits"
	"strconv"
	"strings"
)

type Kind uint8

const (
	KBool Kind = iota
	KBV
	KFP // Float64 only
)

type Sort struct {
	K Kind
	W int // KBV only
}

var Bool = Sort{K: KBool}
var FP64 = Sort{K: KFP}

func BV(w int) Sort { return Sort{K: KBV, W: w} }

func (s Sort) String() string {
	switch s.K {
	case KBool:
		return "Bool"
	case KBV:
		return fmt.Sprintf("(_ BitVec %d)", s.W)
	default:
		return "(_ FloatingPoint 11 53)"
	}
}

type Term struct {
	ID      int
	Op      string // "var", "const", or an SMT operator (possibly indexed, e.g. "(_ extract 7 0)")
	Args    []*Term
	Sort    Sort
	Name    string  // Op=="var"
	U       uint64  // Op=="const": BV value (masked) or bool (0/1)
	F       float64 // Op=="const", KFP
	defined bool
}

func (t *Term) IsConst() bool { return t.Op == "const" }
func (t *Term) IsTrue() bool  { return t.Op == "const" && t.Sort.K == KBool && t.U == 1 }
func (t *Term) IsFalse() bool { return t.Op == "const" && t.Sort.K == KBool && t.U == 0 }

// Ctx owns the terms of one path.
type Ctx struct {
	tab   map[string]*Term
	next  int
	Vars  []*Term
	names map[string]bool
}

func NewCtx() *Ctx { return &Ctx{tab: map[string]*Term{}, names: map[string]bool{}} }

func mask(w int) uint64 {
	if w >= 64 {
		return ^uint64(0)
	}
	return (uint64(1) << uint(w)) - 1
}

func sext(u uint64, w int) int64 {
	if w >= 64 {
		return int64(u)
	}
	sh := uint(64 - w)
	return int64(u<<sh) >> sh
}

func (c *Ctx) intern(key string, mk func() *Term) *Term {
	if t, ok := c.tab[key]; ok {
		return t
	}
	t := mk()
	t.ID = c.next
	c.next++
	c.tab[key] = t
	return t
}

func (c *Ctx) Var(name string, s Sort) *Term {
	if c.names[name] {
		panic("smt: duplicate variable " + name)
	}
	c.names[name] = true
	t := &Term{Op: "var", Name: name, Sort: s, ID: c.next}
	c.next++
	c.Vars = append(c.Vars, t)
	return t
}

func (c *Ctx) BoolConst(b bool) *Term {
	u := uint64(0)
	if b {
		u = 1
	}
	return c.intern(fmt.Sprintf("cb%d", u), func() *Term { return &Term{Op: "const", Sort: Bool, U: u} })
}

func (c *Ctx) BVConst(u uint64, w int) *Term {
	u &= mask(w)
	return c.intern(fmt.Sprintf("cv%d:%d", w, u), func() *Term { return &Term{Op: "const", Sort: BV(w), U: u} })
}

func (c *Ctx) FPConst(f float64) *Term {
	b := math.Float64bits(f)
	if f != f {
		b = 0x7ff8000000000001
	}
	return c.intern(fmt.Sprintf("cf%x", b), func() *Term { return &Term{Op: "const", Sort: FP64, F: f} })
}

func (c *Ctx) mk(op string, s Sort, args ...*Term) *Term {
	var sb strings.Builder
	sb.WriteString(op)
	for _, a := range args {
		sb.WriteByte(' ')
		sb.WriteString(strconv.Itoa(a.ID))
	}
	return c.intern(sb.String(), func() *Term { return &Term{Op: op, Sort: s, Args: args} })
}

// ---------- booleans

func (c *Ctx) Not(a *Term) *Term {
	if a.IsConst() {
		return c.BoolConst(a.U == 0)
	}
	if a.Op == "not" {
		return a.Args[0]
	}
	return c.mk("not", Bool, a)
}

func (c *Ctx) And(a, b *Term) *Term {
	if a.IsFalse() || b.IsFalse() {
		return c.BoolConst(false)
	}
	if a.IsTrue() {
		return b
	}
	if b.IsTrue() {
		return a
	}
	if a == b {
		return a
	}
	return c.mk("and", Bool, a, b)
}

func (c *Ctx) Or(a, b *Term) *Term {
	if a.IsTrue() || b.IsTrue() {
		return c.BoolConst(true)
	}
	if a.IsFalse() {
		return b
	}
	if b.IsFalse() {
		return a
	}
	if a == b {
		return a
	}
	return c.mk("or", Bool, a, b)
}

func (c *Ctx) Implies(a, b *Term) *Term { return c.Or(c.Not(a), b) }

func (c *Ctx) Ite(cond, a, b *Term) *Term {
	if cond.IsTrue() {
		return a
	}
	if cond.IsFalse() {
		return b
	}
	if a == b {
		return a
	}
	if a.Sort.K == KBool {
		if a.IsTrue() && b.IsFalse() {
			return cond
		}
		if a.IsFalse() && b.IsTrue() {
			return c.Not(cond)
		}
	}
	return c.mk("ite", a.Sort, cond, a, b)
}

// Eq is structural equality ("=") for Bool and BV; for FP use FPEq (IEEE ==).
func (c *Ctx) Eq(a, b *Term) *Term {
	if a == b && a.Sort.K != KFP {
		return c.BoolConst(true)
	}
	if a.IsConst() && b.IsConst() && a.Sort.K != KFP {
		return c.BoolConst(a.U == b.U)
	}
	if a.Sort.K == KBool {
		if a.IsConst() {
			a, b = b, a
		}
		if b.IsTrue() {
			return a
		}
		if b.IsFalse() {
			return c.Not(a)
		}
	}
	if a.ID > b.ID {
		a, b = b, a
	}
	return c.mk("=", Bool, a, b)
}

// ---------- bit-vectors

func (c *Ctx) bin(op string, a, b *Term, f func(x, y uint64, w int) (uint64, bool)) *Term {
	w := a.Sort.W
	if a.Sort != b.Sort {
		panic(fmt.Sprintf("smt: %s sort mismatch %v %v", op, a.Sort, b.Sort))
	}
	if a.IsConst() && b.IsConst() {
		if r, ok := f(a.U, b.U, w); ok {
			return c.BVConst(r, w)
		}
	}
	return c.mk(op, a.Sort, a, b)
}

func (c *Ctx) Add(a, b *Term) *Term {
	if a.IsConst() && a.U == 0 {
		return b
	}
	if b.IsConst() && b.U == 0 {
		return a
	}
	return c.bin("bvadd", a, b, func(x, y uint64, w int) (uint64, bool) { return x + y, true })
}
func (c *Ctx) Sub(a, b *Term) *Term {
	if b.IsConst() && b.U == 0 {
		return a
	}
	if a == b {
		return c.BVConst(0, a.Sort.W)
	}
	return c.bin("bvsub", a, b, func(x, y uint64, w int) (uint64, bool) { return x - y, true })
}
func (c *Ctx) Mul(a, b *Term) *Term {
	if a.IsConst() && a.U == 1 {
		return b
	}
	if b.IsConst() && b.U == 1 {
		return a
	}
	if (a.IsConst() && a.U == 0) || (b.IsConst() && b.U == 0) {
		return c.BVConst(0, a.Sort.W)
	}
	return c.bin("bvmul", a, b, func(x, y uint64, w int) (uint64, bool) { return x * y, true })
}
func (c *Ctx) UDiv(a, b *Term) *Term {
	return c.bin("bvudiv", a, b, func(x, y uint64, w int) (uint64, bool) {
		if y == 0 {
			return 0, false
		}
		return x / y, true
	})
}
func (c *Ctx) URem(a, b *Term) *Term {
	return c.bin("bvurem", a, b, func(x, y uint64, w int) (uint64, bool) {
		if y == 0 {
			return 0, false
		}
		return x % y, true
	})
}
func (c *Ctx) SDiv(a, b *Term) *Term {
	return c.bin("bvsdiv", a, b, func(x, y uint64, w int) (uint64, bool) {
		sx, sy := sext(x, w), sext(y, w)
		if sy == 0 {
			return 0, false
		}
		if sy == -1 {
			return uint64(-sx), true
		}
		return uint64(sx / sy), true
	})
}
func (c *Ctx) SRem(a, b *Term) *Term {
	return c.bin("bvsrem", a, b, func(x, y uint64, w int) (uint64, bool) {
		sx, sy := sext(x, w), sext(y, w)
		if sy == 0 {
			return 0, false
		}
		if sy == -1 {
			return 0, true
		}
		return uint64(sx % sy), true
	})
}
func (c *Ctx) BAnd(a, b *Term) *Term {
	return c.bin("bvand", a, b, func(x, y uint64, w int) (uint64, bool) { return x & y, true })
}
func (c *Ctx) BOr(a, b *Term) *Term {
	return c.bin("bvor", a, b, func(x, y uint64, w int) (uint64, bool) { return x | y, true })
}
func (c *Ctx) BXor(a, b *Term) *Term {
	return c.bin("bvxor", a, b, func(x, y uint64, w int) (uint64, bool) { return x ^ y, true })
}
func (c *Ctx) Shl(a, b *Term) *Term {
	return c.bin("bvshl", a, b, func(x, y uint64, w int) (uint64, bool) {
		if y >= uint64(w) {
			return 0, true
		}
		return x << y, true
	})
}
func (c *Ctx) LShr(a, b *Term) *Term {
	return c.bin("bvlshr", a, b, func(x, y uint64, w int) (uint64, bool) {
		if y >= uint64(w) {
			return 0, true
		}
		return (x & mask(w)) >> y, true
	})
}
func (c *Ctx) AShr(a, b *Term) *Term {
	return c.bin("bvashr", a, b, func(x, y uint64, w int) (uint64, bool) {
		sx := sext(x, w)
		if y >= uint64(w) {
			y = uint64(w - 1)
		}
		return uint64(sx >> y), true
	})
}
func (c *Ctx) BNot(a *Term) *Term {
	if a.IsConst() {
		return c.BVConst(^a.U, a.Sort.W)
	}
	return c.mk("bvnot", a.Sort, a)
}
func (c *Ctx) Neg(a *Term) *Term {
	if a.IsConst() {
		return c.BVConst(-a.U, a.Sort.W)
	}
	return c.mk("bvneg", a.Sort, a)
}

func (c *Ctx) cmp(op string, a, b *Term, f func(x, y uint64, w int) bool) *Term {
	if a.Sort != b.Sort {
		panic(fmt.Sprintf("smt: %s sort mismatch %v %v", op, a.Sort, b.Sort))
	}
	if a.IsConst() && b.IsConst() {
		return c.BoolConst(f(a.U, b.U, a.Sort.W))
	}
	return c.mk(op, Bool, a, b)
}
func (c *Ctx) ULt(a, b *Term) *Term {
	if a == b {
		return c.BoolConst(false)
	}
	return c.cmp("bvult", a, b, func(x, y uint64, w int) bool { return x < y })
}
func (c *Ctx) ULe(a, b *Term) *Term {
	if a == b {
		return c.BoolConst(true)
	}
	return c.cmp("bvule", a, b, func(x, y uint64, w int) bool { return x <= y })
}
func (c *Ctx) SLt(a, b *Term) *Term {
	if a == b {
		return c.BoolConst(false)
	}
	return c.cmp("bvslt", a, b, func(x, y uint64, w int) bool { return sext(x, w) < sext(y, w) })
}
func (c *Ctx) SLe(a, b *Term) *Term {
	if a == b {
		return c.BoolConst(true)
	}
	return c.cmp("bvsle", a, b, func(x, y uint64, w int) bool { return sext(x, w) <= sext(y, w) })
}

func (c *Ctx) Extract(hi, lo int, a *Term) *Term {
	if lo == 0 && hi == a.Sort.W-1 {
		return a
	}
	w := hi - lo + 1
	if a.IsConst() {
		return c.BVConst(a.U>>uint(lo), w)
	}
	return c.mk(fmt.Sprintf("(_ extract %d %d)", hi, lo), BV(w), a)
}
func (c *Ctx) ZExt(a *Term, to int) *Term {
	k := to - a.Sort.W
	if k == 0 {
		return a
	}
	if a.IsConst() {
		return c.BVConst(a.U, to)
	}
	return c.mk(fmt.Sprintf("(_ zero_extend %d)", k), BV(to), a)
}
func (c *Ctx) SExt(a *Term, to int) *Term {
	k := to - a.Sort.W
	if k == 0 {
		return a
	}
	if a.IsConst() {
		return c.BVConst(uint64(sext(a.U, a.Sort.W)), to)
	}
	return c.mk(fmt.Sprintf("(_ sign_extend %d)", k), BV(to), a)
}

// Resize converts a to width `to`, sign- or zero-extending when widening, truncating otherwise.
func (c *Ctx) Resize(a *Term, to int, signed bool) *Term {
	switch {
	case a.Sort.W == to:
		return a
	case a.Sort.W > to:
		return c.Extract(to-1, 0, a)
	case signed:
		return c.SExt(a, to)
	default:
		return c.ZExt(a, to)
	}
}

// ---------- floating point (double, RNE)

func (c *Ctx) fpbin(op string, a, b *Term, f func(x, y float64) float64) *Term {
	if a.IsConst() && b.IsConst() {
		return c.FPConst(f(a.F, b.F))
	}
	return c.mk(op+" RNE", FP64, a, b)
}
func (c *Ctx) FAdd(a, b *Term) *Term {
	return c.fpbin("fp.add", a, b, func(x, y float64) float64 { return x + y })
}
func (c *Ctx) FSub(a, b *Term) *Term {
	return c.fpbin("fp.sub", a, b, func(x, y float64) float64 { return x - y })
}
func (c *Ctx) FMul(a, b *Term) *Term {
	return c.fpbin("fp.mul", a, b, func(x, y float64) float64 { return x * y })
}
func (c *Ctx) FDiv(a, b *Term) *Term {
	return c.fpbin("fp.div", a, b, func(x, y float64) float64 { return x / y })
}
func (c *Ctx) FNeg(a *Term) *Term {
	if a.IsConst() {
		return c.FPConst(-a.F)
	}
	return c.mk("fp.neg", FP64, a)
}
func (c *Ctx) FAbs(a *Term) *Term {
	if a.IsConst() {
		return c.FPConst(math.Abs(a.F))
	}
	return c.mk("fp.abs", FP64, a)
}
func (c *Ctx) fpcmp(op string, a, b *Term, f func(x, y float64) bool) *Term {
	if a.IsConst() && b.IsConst() {
		return c.BoolConst(f(a.F, b.F))
	}
	return c.mk(op, Bool, a, b)
}
func (c *Ctx) FLt(a, b *Term) *Term {
	return c.fpcmp("fp.lt", a, b, func(x, y float64) bool { return x < y })
}
func (c *Ctx) FLe(a, b *Term) *Term {
	return c.fpcmp("fp.leq", a, b, func(x, y float64) bool { return x <= y })
}
func (c *Ctx) FEq(a, b *Term) *Term {
	return c.fpcmp("fp.eq", a, b, func(x, y float64) bool { return x == y })
}
func (c *Ctx) FIsNaN(a *Term) *Term {
	if a.IsConst() {
		return c.BoolConst(a.F != a.F)
	}
	return c.mk("fp.isNaN", Bool, a)
}
func (c *Ctx) FIsInf(a *Term) *Term {
	if a.IsConst() {
		return c.BoolConst(math.IsInf(a.F, 0))
	}
	return c.mk("fp.isInfinite", Bool, a)
}
func (c *Ctx) FIsNeg(a *Term) *Term {
	if a.IsConst() {
		return c.BoolConst(math.Signbit(a.F) && a.F == a.F)
	}
	return c.mk("fp.isNegative", Bool, a)
}

// FRound: mode one of RTN (floor), RTP (ceil), RTZ (trunc), RNA (math.Round), RNE.
func (c *Ctx) FRound(mode string, a *Term) *Term {
	if a.IsConst() {
		switch mode {
		case "RTN":
			return c.FPConst(math.Floor(a.F))
		case "RTP":
			return c.FPConst(math.Ceil(a.F))
		case "RTZ":
			return c.FPConst(math.Trunc(a.F))
		case "RNA":
			return c.FPConst(math.Round(a.F))
		case "RNE":
			return c.FPConst(math.RoundToEven(a.F))
		}
	}
	return c.mk("fp.roundToIntegral "+mode, FP64, a)
}

// FFromSBV converts a signed bit-vector to double (RNE).
func (c *Ctx) FFromSBV(a *Term) *Term {
	if a.IsConst() {
		return c.FPConst(float64(sext(a.U, a.Sort.W)))
	}
	return c.mk("(_ to_fp 11 53) RNE", FP64, a)
}
func (c *Ctx) FFromUBV(a *Term) *Term {
	if a.IsConst() {
		return c.FPConst(float64(a.U))
	}
	return c.mk("(_ to_fp_unsigned 11 53) RNE", FP64, a)
}

// FToSBV is fp.to_sbv RTZ, unspecified for NaN/out-of-range (callers guard those).
func (c *Ctx) FToSBV(a *Term, w int) *Term {
	return c.mk(fmt.Sprintf("(_ fp.to_sbv %d) RTZ", w), BV(w), a)
}
func (c *Ctx) FToUBV(a *Term, w int) *Term {
	return c.mk(fmt.Sprintf("(_ fp.to_ubv %d) RTZ", w), BV(w), a)
}

// ---------- serialisation

func fpLit(f float64) string {
	if f != f {
		return "(_ NaN 11 53)"
	}
	return fmt.Sprintf("((_ to_fp 11 53) #x%016x)", math.Float64bits(f))
}

func quote(name string) string {
	return "|" + strings.NewReplacer("|", "!", "\\", "!").Replace(name) + "|"
}

func (t *Term) ref() string {
	switch t.Op {
	case "const":
		switch t.Sort.K {
		case KBool:
			if t.U == 1 {
				return "true"
			}
			return "false"
		case KBV:
			return fmt.Sprintf("(_ bv%d %d)", t.U, t.Sort.W)
		default:
			return fpLit(t.F)
		}
	case "var":
		return quote(t.Name)
	}
	return "t" + strconv.Itoa(t.ID)
}

// Emit writes declarations/definitions needed for t (once per term) to w.
func (t *Term) Emit(w io.Writer) {
	if t.defined {
		return
	}
	t.defined = true
	switch t.Op {
	case "const":
		return
	case "var":
		fmt.Fprintf(w, "(declare-const %s %s)\n", quote(t.Name), t.Sort)
		return
	}
	for _, a := range t.Args {
		a.Emit(w)
	}
	var sb strings.Builder
	sb.WriteString("(define-fun t")
	sb.WriteString(strconv.Itoa(t.ID))
	sb.WriteString(" () ")
	sb.WriteString(t.Sort.String())
	sb.WriteString(" (")
	sb.WriteString(t.Op)
	for _, a := range t.Args {
		sb.WriteByte(' ')
		sb.WriteString(a.ref())
	}
	sb.WriteString("))\n")
	io.WriteString(w, sb.String())
}

func (t *Term) Ref() string { return t.ref() }

// String renders the term as a tree (debugging / evidence; may be large).
func (t *Term) String() string {
	switch t.Op {
	case "const", "var":
		return t.ref()
	}
	var sb strings.Builder
	sb.WriteString("(" + t.Op)
	for _, a := range t.Args {
		sb.WriteByte(' ')
		sb.WriteString(a.String())
	}
	sb.WriteByte(')')
	return sb.String()
}

// Eval evaluates t under a model (var name -> value bits). Missing vars are 0.
// Used to predict observations; FP ops are evaluated with Go arithmetic.
func Eval(t *Term, m map[string]uint64, memo map[*Term]uint64) uint64 {
	if v, ok := memo[t]; ok {
		return v
	}
	var r uint64
	a := func(i int) uint64 { return Eval(t.Args[i], m, memo) }
	f := func(i int) float64 { return math.Float64frombits(a(i)) }
	b2u := func(b bool) uint64 {
		if b {
			return 1
		}
		return 0
	}
	w := t.Sort.W
	switch t.Op {
	case "const":
		if t.Sort.K == KFP {
			r = math.Float64bits(t.F)
		} else {
			r = t.U
		}
	case "var":
		r = m[t.Name]
	case "not":
		r = 1 - a(0)
	case "and":
		r = a(0) & a(1)
	case "or":
		r = a(0) | a(1)
	case "ite":
		if a(0) == 1 {
			r = a(1)
		} else {
			r = a(2)
		}
	case "=":
		if t.Args[0].Sort.K == KFP {
			x, y := f(0), f(1)
			r = b2u(math.Float64bits(x) == math.Float64bits(y) || (x != x && y != y))
		} else {
			r = b2u(a(0) == a(1))
		}
	case "bvadd":
		r = a(0) + a(1)
	case "bvsub":
		r = a(0) - a(1)
	case "bvmul":
		r = a(0) * a(1)
	case "bvudiv":
		if a(1) == 0 {
			r = mask(w)
		} else {
			r = a(0) / a(1)
		}
	case "bvurem":
		if a(1) == 0 {
			r = a(0)
		} else {
			r = a(0) % a(1)
		}
	case "bvsdiv":
		x, y := sext(a(0), w), sext(a(1), w)
		switch {
		case y == 0:
			if x < 0 {
				r = 1
			} else {
				r = mask(w)
			}
		case y == -1:
			r = uint64(-x)
		default:
			r = uint64(x / y)
		}
	case "bvsrem":
		x, y := sext(a(0), w), sext(a(1), w)
		switch {
		case y == 0:
			r = uint64(x)
		case y == -1:
			r = 0
		default:
			r = uint64(x % y)
		}
	case "bvand":
		r = a(0) & a(1)
	case "bvor":
		r = a(0) | a(1)
	case "bvxor":
		r = a(0) ^ a(1)
	case "bvnot":
		r = ^a(0)
	case "bvneg":
		r = -a(0)
	case "bvshl":
		if a(1) >= uint64(w) {
			r = 0
		} else {
			r = a(0) << a(1)
		}
	case "bvlshr":
		if a(1) >= uint64(w) {
			r = 0
		} else {
			r = a(0) >> a(1)
		}
	case "bvashr":
		s := a(1)
		if s >= uint64(w) {
			s = uint64(w - 1)
		}
		r = uint64(sext(a(0), w) >> s)
	case "bvult":
		r = b2u(a(0) < a(1))
	case "bvule":
		r = b2u(a(0) <= a(1))
	case "bvslt":
		ww := t.Args[0].Sort.W
		r = b2u(sext(a(0), ww) < sext(a(1), ww))
	case "bvsle":
		ww := t.Args[0].Sort.W
		r = b2u(sext(a(0), ww) <= sext(a(1), ww))
	case "fp.add RNE":
		r = math.Float64bits(f(0) + f(1))
	case "fp.sub RNE":
		r = math.Float64bits(f(0) - f(1))
	case "fp.mul RNE":
		r = math.Float64bits(f(0) * f(1))
	case "fp.div RNE":
		r = math.Float64bits(f(0) / f(1))
	case "fp.neg":
		r = math.Float64bits(-f(0))
	case "fp.abs":
		r = math.Float64bits(math.Abs(f(0)))
	case "fp.lt":
		r = b2u(f(0) < f(1))
	case "fp.leq":
		r = b2u(f(0) <= f(1))
	case "fp.eq":
		r = b2u(f(0) == f(1))
	case "fp.isNaN":
		r = b2u(f(0) != f(0))
	case "fp.isInfinite":
		r = b2u(math.IsInf(f(0), 0))
	case "fp.isNegative":
		r = b2u(math.Signbit(f(0)) && f(0) == f(0))
	case "fp.roundToIntegral RTN":
		r = math.Float64bits(math.Floor(f(0)))
	case "fp.roundToIntegral RTP":
		r = math.Float64bits(math.Ceil(f(0)))
	case "fp.roundToIntegral RTZ":
		r = math.Float64bits(math.Trunc(f(0)))
	case "fp.roundToIntegral RNA":
		r = math.Float64bits(math.Round(f(0)))
	case "fp.roundToIntegral RNE":
		r = math.Float64bits(math.RoundToEven(f(0)))
	case "(_ to_fp 11 53) RNE":
		r = math.Float64bits(float64(sext(a(0), t.Args[0].Sort.W)))
	case "(_ to_fp_unsigned 11 53) RNE":
		r = math.Float64bits(float64(a(0)))
	default:
		switch {
		case strings.HasPrefix(t.Op, "(_ extract "):
			var hi, lo int
			fmt.Sscanf(t.Op, "(_ extract %d %d)", &hi, &lo)
			r = a(0) >> uint(lo)
		case strings.HasPrefix(t.Op, "(_ zero_extend "):
			r = a(0)
		case strings.HasPrefix(t.Op, "(_ sign_extend "):
			r = uint64(sext(a(0), t.Args[0].Sort.W))
		case strings.HasPrefix(t.Op, "(_ fp.to_sbv "):
			r = uint64(int64(f(0)))
		case strings.HasPrefix(t.Op, "(_ fp.to_ubv "):
			r = uint64(f(0))
		default:
			panic("smt.Eval: unsupported op " + t.Op)
		}
	}
	if t.Sort.K == KBV {
		r &= mask(w)
	}
	memo[t] = r
	return r
}

// BitLen returns the number of bits needed for |v|.
func BitLen(v int64) int {
	if v < 0 {
		v = -v
	}
	return bits.Len64(uint64(v))
}
