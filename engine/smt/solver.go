package smt

import (
	"bufio"
	"context"
	"fmt"
	"io"
	"math"
	"os"
	"os/exec"
	"strconv"
	"strings"
	"sync"
	"syscall"
	"time"
)

const firstTimeoutMs = 2500

type Result int

const (
	Sat Result = iota
	Unsat
	Unknown
)

func (r Result) String() string { return [...]string{"sat", "unsat", "unknown"}[r] }

// Solver drives one live `z3 -in` process (incremental, push/pop). Queries that mention
// floating-point terms are additionally raced against one-shot cvc5 / z3 processes (portfolio).
type Solver struct {
	cmd        *exec.Cmd
	in         io.WriteCloser
	out        *bufio.Reader
	lines      chan string
	gen        int
	script     strings.Builder // path-level commands since PathBegin (for portfolio / dumps)
	hasFP      bool
	queryHasFP bool

	TimeoutMs  int
	Restarts   int
	inPath     bool
	Queries    int
	Unknowns   int
	finalQuery bool
	Discarded  int // models refuted by a second solver
	Errors     []string
	SolverTime time.Duration
	ByEngine   map[string]int
	DumpDir    string // when set, final (assertion) queries are dumped here
	dumpN      int
	mu         sync.Mutex
}

func NewSolver(timeoutMs int) (*Solver, error) {
	s := &Solver{TimeoutMs: timeoutMs, ByEngine: map[string]int{}}
	if err := s.start(); err != nil {
		return nil, err
	}
	return s, nil
}

func (s *Solver) start() error {
	s.cmd = exec.Command("z3", "-in")
	s.cmd.SysProcAttr = &syscall.SysProcAttr{Pdeathsig: syscall.SIGKILL}
	var err error
	if s.in, err = s.cmd.StdinPipe(); err != nil {
		return err
	}
	op, err := s.cmd.StdoutPipe()
	if err != nil {
		return err
	}
	s.cmd.Stderr = os.Stderr
	s.out = bufio.NewReaderSize(op, 1<<16)
	if err := s.cmd.Start(); err != nil {
		return err
	}
	ch := make(chan string, 1024)
	s.lines = ch
	rd := s.out
	go func() {
		for {
			line, err := rd.ReadString('\n')
			if err != nil {
				close(ch)
				return
			}
			ch <- strings.TrimRight(line, "\r\n")
		}
	}()
	s.raw(fmt.Sprintf("(set-option :timeout %d)\n(set-option :model.completion true)\n", s.TimeoutMs))
	return nil
}

func (s *Solver) Close() {
	if s.cmd != nil {
		s.in.Close()
		s.cmd.Process.Kill()
		s.cmd.Wait()
		s.cmd = nil
	}
}

func (s *Solver) restart() {
	s.Close()
	if err := s.start(); err != nil {
		panic(err)
	}
}

func (s *Solver) raw(text string) { io.WriteString(s.in, text) }

// sync sends an echo marker and returns all output lines before it.
func (s *Solver) sync() []string {
	l, _ := s.syncDeadline(time.Duration(s.TimeoutMs+30000) * time.Millisecond)
	return l
}

// syncDeadline is sync with a wall-clock watchdog: z3's own :timeout is not honoured inside some
// preprocessing steps. On expiry the process is killed and restarted with the path's script
// replayed; the second result is false.
func (s *Solver) syncDeadline(d time.Duration) ([]string, bool) {
	s.raw("(echo \"@@done@@\")\n")
	var lines []string
	timer := time.NewTimer(d)
	defer timer.Stop()
	for {
		select {
		case line, ok := <-s.lines:
			if !ok {
				s.Errors = append(s.Errors, "solver died")
				lines = append(lines, "(error \"solver died\")")
				s.restartWithScript()
				return lines, true
			}
			if strings.Contains(line, "@@done@@") {
				return lines, true
			}
			if line != "" {
				lines = append(lines, line)
			}
		case <-timer.C:
			s.Restarts++
			s.restartWithScript()
			return nil, false
		}
	}
}

func (s *Solver) restartWithScript() {
	s.restart()
	if s.inPath {
		s.raw("(push 1)\n")
		s.raw(s.script.String())
	}
}

// PathBegin opens a fresh scope for one path.
func (s *Solver) PathBegin() {
	s.script.Reset()
	s.hasFP = false
	s.inPath = true
	s.raw("(push 1)\n")
}

// PathEnd closes the path scope.
func (s *Solver) PathEnd() {
	s.inPath = false
	s.raw("(pop 1)\n")
	for _, l := range s.sync() {
		if strings.Contains(l, "(error") {
			// stale state: restart to be safe
			s.Errors = append(s.Errors, "at pop: "+l)
			s.restart()
			return
		}
	}
}

func termHasFP(t *Term, seen map[*Term]bool) bool {
	if seen[t] {
		return false
	}
	seen[t] = true
	if t.Sort.K == KFP {
		return true
	}
	for _, a := range t.Args {
		if termHasFP(a, seen) {
			return true
		}
	}
	return false
}

func (s *Solver) define(t *Term) {
	var sb strings.Builder
	t.Emit(&sb)
	if sb.Len() > 0 {
		s.script.WriteString(sb.String())
		s.raw(sb.String())
	}
	if !s.hasFP && termHasFP(t, map[*Term]bool{}) {
		s.hasFP = true
	}
}

// Assert adds t to the path condition.
func (s *Solver) Assert(t *Term) {
	if t.IsTrue() {
		return
	}
	s.define(t)
	cmd := "(assert " + t.ref() + ")\n"
	s.script.WriteString(cmd)
	s.raw(cmd)
}

// Check decides satisfiability of pathcondition ∧ extra (extra may be nil). When the answer is sat
// and want is non-empty, the values of those terms are returned (by index).
func (s *Solver) Check(extra *Term, want []*Term, final bool) (Result, []uint64) {
	s.Queries++
	s.finalQuery = final
	start := time.Now()
	var queryText string
	defer func() {
		d := time.Since(start)
		s.SolverTime += d
		if d > time.Second && s.DumpDir != "" && os.Getenv("VERIF_DUMP_SLOW") != "" {
			s.dumpN++
			os.WriteFile(fmt.Sprintf("%s/slow%05d_%dms.smt2", s.DumpDir, s.dumpN, d.Milliseconds()), []byte(s.script.String()+strings.TrimPrefix(queryText, "(push 1)\n")), 0o644)
		}
	}()
	if extra != nil {
		if extra.IsFalse() {
			return Unsat, nil
		}
		s.define(extra)
	}
	for _, w := range want {
		s.define(w)
	}
	var q strings.Builder
	q.WriteString("(push 1)\n")
	if extra != nil && !extra.IsTrue() {
		q.WriteString("(assert " + extra.ref() + ")\n")
	}
	q.WriteString("(check-sat)\n")
	queryText = q.String()

	if final && s.DumpDir != "" {
		s.dumpN++
		os.WriteFile(fmt.Sprintf("%s/q%05d.smt2", s.DumpDir, s.dumpN), []byte(s.script.String()+strings.TrimPrefix(queryText, "(push 1)\n")), 0o644)
	}

	s.queryHasFP = s.hasFP || (extra != nil && termHasFP(extra, map[*Term]bool{}))
	// Give the live incremental z3 a short budget first; if it does not answer definitively, race
	// one-shot solvers (their preprocessing differs from incremental mode by orders of magnitude on
	// multiply-by-constant chains and on floating point; probes in DESIGN.md 2.2).
	s.raw(fmt.Sprintf("(set-option :timeout %d)\n", firstTimeoutMs))
	s.raw(queryText)
	lines, alive := s.syncDeadline(time.Duration(firstTimeoutMs+1500) * time.Millisecond)
	if !alive {
		// live solver was killed and restarted with the path script replayed
		return s.portfolio(queryText, want)
	}
	definitive := false
	for _, l := range lines {
		if l == "sat" || l == "unsat" {
			definitive = true
		}
	}
	for _, l := range lines {
		if strings.Contains(l, "(error") {
			definitive = false
		}
	}
	if !definitive {
		// z3 (4.8.12 and 5.1.0 alike) cannot be trusted after a check-sat that timed out inside a
		// push/pop scope: replaying recorded transcripts, the NEXT check-sat of the same process
		// answered "sat" with a model violating path-level assertions (the fp-to-bv side constraints
		// of the popped scope are lost) where a fresh process answers unsat / unknown. The live
		// solver is therefore restarted with the path script replayed after every undecided query.
		s.Restarts++
		s.restartWithScript()
		return s.portfolio(queryText, want)
	}
	res := Unknown
	for _, l := range lines {
		switch {
		case strings.Contains(l, "(error"):
			s.Errors = append(s.Errors, l)
			res = Unknown
		case l == "sat":
			res = Sat
		case l == "unsat":
			res = Unsat
		case l == "unknown":
			res = Unknown
		}
	}
	for _, l := range lines {
		if strings.Contains(l, "(error") {
			res = Unknown
		}
	}
	var vals []uint64
	if res == Sat && len(want) > 0 {
		var g strings.Builder
		for _, w := range want {
			g.WriteString("(get-value (" + w.ref() + "))\n")
		}
		s.raw(g.String())
		out := strings.Join(s.sync(), "\n")
		var err error
		vals, err = parseValues(out, len(want))
		if err != nil {
			s.Errors = append(s.Errors, "get-value: "+err.Error()+": "+out)
			res = Unknown
		}
	}
	s.raw("(pop 1)\n")
	if res == Sat && len(want) > 0 && s.queryHasFP && s.finalQuery &&
		!s.modelHolds("(set-option :produce-models true)\n(set-logic ALL)\n"+s.script.String(), queryText, want, vals, "z3") {
		s.Discarded++
		s.ByEngine["model-refuted-by-second-solver"]++
		return s.portfolio(queryText, want)
	}
	if res == Unknown {
		s.Unknowns++
	}
	s.ByEngine["z3"]++
	return res, vals
}

// portfolio runs script+query one-shot on cvc5 and z3 in parallel; first definitive answer wins.
func (s *Solver) portfolio(queryText string, want []*Term) (Result, []uint64) {
	res, vals := s.portfolioOnce(queryText, want, s.TimeoutMs)
	if res == Unknown && s.finalQuery {
		// an assertion obligation nobody decided in time: one more race with 2.5x the budget before
		// it is reported inconclusive (a loaded machine makes 20 s queries miss a 60 s wall-clock cap)
		s.Unknowns--
		s.ByEngine["retried-with-longer-timeout"]++
		res, vals = s.portfolioOnce(queryText, want, s.TimeoutMs*5/2)
	}
	return res, vals
}

func (s *Solver) portfolioOnce(queryText string, want []*Term, timeoutMs int) (Result, []uint64) {
	var sb strings.Builder
	sb.WriteString("(set-option :produce-models true)\n(set-logic ALL)\n")
	sb.WriteString(s.script.String())
	base := sb.String()
	sb.WriteString(strings.TrimPrefix(queryText, "(push 1)\n"))
	for _, w := range want {
		sb.WriteString("(get-value (" + w.ref() + "))\n")
	}
	text := sb.String()
	type ans struct {
		eng string
		res Result
		out string
	}
	ctx, cancel := context.WithTimeout(context.Background(), time.Duration(timeoutMs)*time.Millisecond)
	defer cancel()
	ch := make(chan ans, 4)
	run := func(eng string, args ...string) {
		cmd := exec.CommandContext(ctx, args[0], args[1:]...)
		cmd.SysProcAttr = &syscall.SysProcAttr{Pdeathsig: syscall.SIGKILL}
		cmd.Stdin = strings.NewReader(text)
		out, _ := cmd.Output()
		o := string(out)
		r := Unknown
		first := strings.SplitN(strings.TrimSpace(o), "\n", 2)[0]
		switch {
		case first == "sat" && !strings.Contains(o, "(error"):
			r = Sat
		case first == "unsat":
			r = Unsat
		}
		ch <- ans{eng, r, o}
	}
	n := 3
	go run("cvc5", "cvc5", "--lang=smt2", "--fp-exp", "-")
	go run("z3-oneshot", "z3", "-in")
	go run("z3-new", "z3-new", "-in")
	if !s.queryHasFP {
		n++
		go run("cvc5-bv-as-int", "cvc5", "--lang=smt2", "--solve-bv-as-int=sum", "-")
	}
	res := Unknown
	var vals []uint64
	for i := 0; i < n; i++ {
		a := <-ch
		if a.res == Unknown {
			continue
		}
		if a.res == Sat && len(want) > 0 {
			rest := ""
			if parts := strings.SplitN(strings.TrimSpace(a.out), "\n", 2); len(parts) == 2 {
				rest = parts[1]
			}
			v, err := parseValues(rest, len(want))
			if err != nil {
				s.Errors = append(s.Errors, a.eng+" get-value: "+err.Error())
				continue
			}
			if s.queryHasFP && s.finalQuery && !s.modelHolds(base, queryText, want, v, a.eng) {
				s.Discarded++
				s.ByEngine["model-refuted-by-second-solver"]++
				continue
			}
			vals = v
		}
		res = a.res
		s.ByEngine[a.eng]++
		if res == Sat && os.Getenv("VERIF_DEBUG_SOLVER") != "" {
			s.dumpN++
			fn := fmt.Sprintf("/tmp/sat_%s_%d_%d.smt2", a.eng, os.Getpid(), s.dumpN)
			os.WriteFile(fn, []byte(text+"\n; OUTPUT\n; "+strings.ReplaceAll(a.out, "\n", "\n; ")), 0o644)
		}
		break
	}
	cancel()
	if res == Unknown {
		s.Unknowns++
		if os.Getenv("VERIF_DEBUG_SOLVER") != "" {
			s.dumpN++
			fn := fmt.Sprintf("/tmp/unknown_%d_%d.smt2", os.Getpid(), s.dumpN)
			os.WriteFile(fn, []byte(text), 0o644)
			fmt.Fprintln(os.Stderr, "portfolio unknown:", fn)
		}
	}
	return res, vals
}

// modelHolds re-checks a model returned for a floating-point query: the inputs are pinned to the
// model's values and a different solver is asked whether the query is still satisfiable. A model
// another solver refutes (observed once with out-of-range bit-vector values on an FP query) is
// discarded rather than reported; an inconclusive re-check accepts the model (native replay decides).
func (s *Solver) modelHolds(base, queryText string, want []*Term, vals []uint64, from string) bool {
	var sb strings.Builder
	sb.WriteString(base)
	for i, w := range want {
		lit := ""
		switch w.Sort.K {
		case KBool:
			lit = "false"
			if vals[i] != 0 {
				lit = "true"
			}
		case KBV:
			lit = fmt.Sprintf("(_ bv%d %d)", vals[i], w.Sort.W)
		default:
			if vals[i]&0x7ff0000000000000 == 0x7ff0000000000000 && vals[i]&0x000fffffffffffff != 0 {
				lit = "(_ NaN 11 53)"
			} else {
				lit = fmt.Sprintf("((_ to_fp 11 53) #x%016x)", vals[i])
			}
		}
		sb.WriteString("(assert (= " + w.ref() + " " + lit + "))\n")
	}
	sb.WriteString(strings.TrimPrefix(queryText, "(push 1)\n"))
	args := []string{"z3-new", "-in"}
	if from == "z3-new" {
		args = []string{"cvc5", "--lang=smt2", "--fp-exp", "-"}
	}
	ctx, cancel := context.WithTimeout(context.Background(), 20*time.Second)
	defer cancel()
	cmd := exec.CommandContext(ctx, args[0], args[1:]...)
	cmd.SysProcAttr = &syscall.SysProcAttr{Pdeathsig: syscall.SIGKILL}
	cmd.Stdin = strings.NewReader(sb.String())
	out, _ := cmd.Output()
	return strings.SplitN(strings.TrimSpace(string(out)), "\n", 2)[0] != "unsat"
}

// ---- s-expression value parsing

type sx struct {
	atom string
	list []*sx
}

func parseSx(s string) ([]*sx, error) {
	var stack [][]*sx
	cur := []*sx{}
	i := 0
	for i < len(s) {
		ch := s[i]
		switch {
		case ch == '(':
			stack = append(stack, cur)
			cur = []*sx{}
			i++
		case ch == ')':
			if len(stack) == 0 {
				return nil, fmt.Errorf("unbalanced )")
			}
			n := &sx{list: cur}
			if n.list == nil {
				n.list = []*sx{}
			}
			cur = append(stack[len(stack)-1], n)
			stack = stack[:len(stack)-1]
			i++
		case ch == ' ' || ch == '\n' || ch == '\t' || ch == '\r':
			i++
		case ch == '|':
			j := strings.IndexByte(s[i+1:], '|')
			if j < 0 {
				return nil, fmt.Errorf("unterminated |")
			}
			cur = append(cur, &sx{atom: s[i : i+j+2]})
			i += j + 2
		case ch == '"':
			j := strings.IndexByte(s[i+1:], '"')
			if j < 0 {
				return nil, fmt.Errorf("unterminated string")
			}
			cur = append(cur, &sx{atom: s[i : i+j+2]})
			i += j + 2
		default:
			j := i
			for j < len(s) && !strings.ContainsRune("() \n\t\r", rune(s[j])) {
				j++
			}
			cur = append(cur, &sx{atom: s[i:j]})
			i = j
		}
	}
	if len(stack) != 0 {
		return nil, fmt.Errorf("unbalanced (")
	}
	return cur, nil
}

func bitsOf(a string) (uint64, int, error) {
	switch {
	case strings.HasPrefix(a, "#x"):
		v, err := strconv.ParseUint(a[2:], 16, 64)
		return v, 4 * (len(a) - 2), err
	case strings.HasPrefix(a, "#b"):
		v, err := strconv.ParseUint(a[2:], 2, 64)
		return v, len(a) - 2, err
	}
	return 0, 0, fmt.Errorf("not a bit literal: %s", a)
}

func valueOf(v *sx) (uint64, error) {
	if v.list == nil {
		switch v.atom {
		case "true":
			return 1, nil
		case "false":
			return 0, nil
		}
		u, _, err := bitsOf(v.atom)
		return u, err
	}
	l := v.list
	if len(l) >= 2 && l[0].atom == "_" {
		switch {
		case strings.HasPrefix(l[1].atom, "bv"):
			return strconv.ParseUint(l[1].atom[2:], 10, 64)
		case l[1].atom == "NaN":
			return 0x7ff8000000000001, nil
		case l[1].atom == "+oo":
			return math.Float64bits(math.Inf(1)), nil
		case l[1].atom == "-oo":
			return math.Float64bits(math.Inf(-1)), nil
		case l[1].atom == "+zero":
			return 0, nil
		case l[1].atom == "-zero":
			return 1 << 63, nil
		}
	}
	if len(l) == 4 && l[0].atom == "fp" {
		sg, _, e1 := bitsOf(l[1].atom)
		ex, _, e2 := bitsOf(l[2].atom)
		mn, _, e3 := bitsOf(l[3].atom)
		if e1 != nil || e2 != nil || e3 != nil {
			return 0, fmt.Errorf("bad fp literal")
		}
		return sg<<63 | ex<<52 | mn, nil
	}
	return 0, fmt.Errorf("unrecognised value")
}

// parseValues parses n consecutive "((term value))" responses.
func parseValues(out string, n int) ([]uint64, error) {
	xs, err := parseSx(out)
	if err != nil {
		return nil, err
	}
	var vals []uint64
	for _, x := range xs {
		if x.list == nil {
			continue
		}
		for _, pair := range x.list {
			if pair.list == nil || len(pair.list) != 2 {
				return nil, fmt.Errorf("bad get-value pair")
			}
			v, err := valueOf(pair.list[1])
			if err != nil {
				return nil, err
			}
			vals = append(vals, v)
		}
	}
	if len(vals) != n {
		return nil, fmt.Errorf("expected %d values, got %d", n, len(vals))
	}
	return vals, nil
}
