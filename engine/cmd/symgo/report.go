package main

import (
	"bufio"
	"encoding/json"
	"fmt"
	"os"
	"path/filepath"
	"sort"
	"strings"
	"time"

	"verif/engine/interp"
)

type knownFinding struct {
	prop, key, text string
}

func loadKnown(path string) (findings []knownFinding, fixed []string) {
	f, err := os.Open(path)
	if err != nil {
		return
	}
	defer f.Close()
	sc := bufio.NewScanner(f)
	for sc.Scan() {
		line := strings.TrimSpace(sc.Text())
		switch {
		case strings.HasPrefix(line, "finding:"):
			kf := knownFinding{text: line}
			for _, tok := range strings.Fields(line) {
				if v, ok := strings.CutPrefix(tok, "property="); ok {
					kf.prop = v
				}
				if v, ok := strings.CutPrefix(tok, "key="); ok {
					kf.key = v
				}
			}
			findings = append(findings, kf)
		case strings.HasPrefix(line, "fixed:"):
			fixed = append(fixed, line)
		}
	}
	return
}

func report(c *cfg, results []*harnessResult, pkgFuncs map[string][]string, overlay map[string][]byte, start time.Time, loadS float64) int {
	known, _ := loadKnown(c.known)
	exit := 0
	var machinery []string

	// ---- gather
	type vio struct {
		v   interp.Violation
		pkg string
	}
	var vios []vio
	pkgsNeeded := map[string]bool{}
	totalPaths, totalBranches, totalQueries, totalUnknown := 0, 0, 0, 0
	solverS := 0.0
	funcs := map[string]struct{}{}
	asserts := map[string]*interp.AssertStat{}
	byEngine := map[string]int{}
	havocK := map[string]int{}
	havocD, fpOps, unknownPaths := 0, 0, 0
	exhaustive := true
	outcomes := map[string]int{}
	covers := map[string]int{}
	var perHarness []map[string]any
	for _, r := range results {
		h := r.run
		pkgsNeeded[r.pkg] = true
		totalPaths += h.Paths
		totalBranches += h.Branches
		totalQueries += r.stats.Queries
		totalUnknown += r.stats.Unknowns
		solverS += r.stats.Seconds
		unknownPaths += h.UnknownPaths
		for k, v := range r.stats.ByEngine {
			byEngine[k] += v
		}
		for _, f := range h.SortedFuncs() {
			funcs[f] = struct{}{}
		}
		for id, s := range h.Asserts {
			t := asserts[id]
			if t == nil {
				t = &interp.AssertStat{}
				asserts[id] = t
			}
			t.Reached += s.Reached
			t.Discharged += s.Discharged
			t.Violated += s.Violated
			t.Unknown += s.Unknown
			t.Trivial += s.Trivial
		}
		for k, v := range h.HavocKernels {
			havocK[k] += v
		}
		for k, v := range h.Outcomes {
			outcomes[k] += v
		}
		havocD += h.HavocDecs
		fpOps += h.FPOps
		if h.Truncated {
			exhaustive = false
		}
		for _, e := range h.Errors {
			machinery = append(machinery, h.Name+": "+e)
		}
		for id, n := range h.Covers {
			if n == 0 && h.Truncated {
				// a capped harness has not explored everything: a witness it did not reach is not evidence of vacuity
				if _, seen := covers[id]; !seen {
					covers[id] = -1
				}
				continue
			}
			if covers[id] < 0 {
				covers[id] = 0
			}
			covers[id] += n
		}
		for _, e := range r.stats.Errors {
			machinery = append(machinery, h.Name+": solver: "+e)
		}
		seen := map[string]int{}
		for _, v := range h.Violations {
			if seen[v.AssertID] < 2 {
				vios = append(vios, vio{v, r.pkg})
			}
			seen[v.AssertID]++
		}
		perHarness = append(perHarness, map[string]any{"harness": h.Name, "paths": h.Paths, "completed": h.Completed, "pruned": h.Pruned,
			"branches": h.Branches, "ssa_instructions": h.Steps, "queries": r.stats.Queries, "solver_s": round2(r.stats.Seconds), "wall_s": round2(r.wall), "truncated": h.Truncated})
	}
	for id, s := range asserts {
		if s.Unknown > 0 {
			machinery = append(machinery, fmt.Sprintf("assertion %s: %d queries inconclusive (solver unknown/timeout)", id, s.Unknown))
		}
		_ = id
	}

	// ---- native replay + translator validation
	validated, mismatches := 0, 0
	var confirmed []vio
	var knownLines []string
	if !c.noReplay {
		rp := newReplayer(c, pkgFuncs, overlay, pkgsNeeded)
		if rp.err != nil {
			machinery = append(machinery, rp.err.Error())
		} else {
			// violations, one at a time
			for i, v := range vios {
				timeout := 60 * time.Second
				res, timedOut, err := rp.runJobs(v.pkg, []job{{v.v.Harness, v.v.Model}}, timeout, fmt.Sprintf("cex%d", i))
				ok := false
				detail := ""
				switch {
				case err != nil:
					detail = err.Error()
				case timedOut:
					ok = v.v.Kind == "unwind"
					detail = "native run did not terminate within 60s"
				default:
					nr := res[0]
					switch v.v.Kind {
					case "assert":
						for _, id := range nr.FailedAsserts {
							if id == v.v.AssertID {
								ok = true
							}
						}
						detail = fmt.Sprintf("native failed_asserts=%v panic=%q assume_failed=%v", nr.FailedAsserts, nr.Panic, nr.AssumeFailed)
					case "panic":
						ok = nr.Panic != ""
						detail = "native panic: " + nr.Panic
					case "unwind":
						// unbounded recursion ends natively in a stack overflow rather than in a timeout
						ok = strings.HasPrefix(nr.Panic, "fatal runtime error")
						detail = "native run terminated although the engine exceeded its loop bound; native panic: " + nr.Panic
					}
				}
				if ok {
					confirmed = append(confirmed, v)
				} else {
					machinery = append(machinery, fmt.Sprintf("counterexample for %s (%s) did NOT reproduce natively: %s; model=%v", v.v.AssertID, v.v.Harness, detail, v.v.Model))
				}
			}
			// samples, batched per package
			for rel := range pkgsNeeded {
				var jobs []job
				var exp []interp.PathSample
				for _, r := range results {
					if r.pkg != rel {
						continue
					}
					for _, s := range r.run.Samples {
						jobs = append(jobs, job{s.Harness, s.Model})
						exp = append(exp, s)
					}
				}
				if len(jobs) == 0 {
					continue
				}
				res, timedOut, err := rp.runJobs(rel, jobs, 300*time.Second, "samples_"+strings.ReplaceAll(rel, "/", "_"))
				if err != nil || timedOut {
					machinery = append(machinery, fmt.Sprintf("translator validation run failed for %s: timedOut=%v err=%v", rel, timedOut, err))
					continue
				}
				for i, nr := range res {
					bad := ""
					if nr.Panic != "" {
						bad = "native panic: " + nr.Panic
					} else if nr.AssumeFailed {
						bad = "native run violated an assumption the engine's model satisfies"
					} else if len(nr.FailedAsserts) > 0 {
						bad = fmt.Sprintf("native run failed %v on a path where the engine discharged it", nr.FailedAsserts)
					} else {
						for k, ev := range exp[i].Observes {
							if nv, ok := nr.Observes[k]; !ok || nv != ev {
								bad = fmt.Sprintf("observation %s: engine %s native %s", k, ev, nv)
								break
							}
						}
						if bad == "" && len(nr.Observes) != len(exp[i].Observes) {
							bad = fmt.Sprintf("observation count: engine %d native %d", len(exp[i].Observes), len(nr.Observes))
						}
					}
					if bad != "" {
						mismatches++
						if mismatches <= 5 {
							machinery = append(machinery, fmt.Sprintf("translator validation mismatch in %s: %s; model=%v", exp[i].Harness, bad, exp[i].Model))
						}
					} else {
						validated++
					}
				}
			}
		}
	} else {
		for _, v := range vios {
			confirmed = append(confirmed, v)
		}
	}

	// ---- classify confirmed violations
	nViol := 0
	cexN := 0
	for _, v := range confirmed {
		isKnown := false
		for _, k := range known {
			if k.prop == c.prop && k.key == v.v.AssertID {
				isKnown = true
				line := fmt.Sprintf("KNOWN-FINDING: property=%s %s (assertion %s, harness %s)", c.prop, strings.TrimSpace(strings.SplitN(k.text, "key="+k.key, 2)[1]), v.v.AssertID, v.v.Harness)
				dup := false
				for _, l := range knownLines {
					if l == line {
						dup = true
					}
				}
				if !dup {
					knownLines = append(knownLines, line)
				}
			}
		}
		if isKnown {
			continue
		}
		cexN++
		path := filepath.Join(c.outDir, fmt.Sprintf("cex-%d.json", cexN))
		b, _ := json.MarshalIndent(v.v, "", " ")
		os.WriteFile(path, b, 0o644)
		fmt.Printf("VIOLATION property=%s replay=%s\n", c.prop, path)
		fmt.Printf("  assertion=%s harness=%s kind=%s %s\n  model=%v\n", v.v.AssertID, v.v.Harness, v.v.Kind, v.v.Message, v.v.Model)
		nViol++
		exit = 1
	}
	for _, l := range knownLines {
		fmt.Println(l)
	}

	// vacuity: every assertion id must have been reached on a feasible path
	var vacuous []string
	for id, s := range asserts {
		if s.Reached == 0 {
			vacuous = append(vacuous, id)
		}
	}
	for id, n := range covers {
		if n == 0 {
			machinery = append(machinery, "reachability witness "+id+" was never satisfied (vacuous or over-constrained harness)")
		}
	}
	if len(asserts) == 0 {
		machinery = append(machinery, "no assertion was reached by any harness (vacuous check)")
	}
	for _, id := range vacuous {
		if !exhaustive {
			continue // a capped run may simply not have got there
		}
		machinery = append(machinery, "assertion "+id+" never reached on a feasible path (vacuous)")
	}

	if len(machinery) > 0 && exit == 0 {
		exit = 2
	}
	for i, m := range machinery {
		if i < 30 {
			fmt.Fprintln(os.Stderr, "symgo: INCONCLUSIVE:", m)
		}
	}

	// ---- evidence
	var kaiFuncs []string
	for f := range funcs {
		if strings.Contains(f, "KAI-scheduler") && !strings.Contains(f, "zz_verif") && !strings.Contains(f, ".Verif") && !strings.Contains(f, "verif") {
			kaiFuncs = append(kaiFuncs, strings.ReplaceAll(f, modPath+"/", ""))
		}
	}
	sort.Strings(kaiFuncs)
	var samples []any
	for _, r := range results {
		for i, s := range r.run.Samples {
			if i < 2 {
				samples = append(samples, map[string]any{"harness": s.Harness, "decisions": s.Decisions, "model": s.Model, "observations": s.Observes})
			}
		}
	}
	if len(samples) == 0 {
		for _, r := range results {
			samples = append(samples, map[string]any{"harness": r.run.Name, "paths": r.run.Paths, "inputs": r.run.InputsSeen})
		}
	}
	if len(samples) > 12 {
		samples = samples[:12]
	}
	assumptions := []string{
		"bounded: structures (pods, nodes, queues, operations) are those built by the harness; see coverage.bounds and DESIGN.md section 5 for " + c.prop,
		"D1: symbolic quantities are integers within the bit bounds passed to verifrt.Any*; D2/D3 of DESIGN.md section 3 for fractional GPU values",
		"stubs: logging, metrics, formatting (fmt), goroutines run to completion, sync primitives are no-ops (DESIGN.md 2.3)",
		"trusted: go/ssa construction, the engine's instruction semantics (cross-validated per run by native replay of sampled paths), z3/cvc5",
	}
	for _, r := range results {
		if src, ok := harnessAssumptions(overlay, r.run.Name); ok {
			assumptions = append(assumptions, src...)
		}
	}
	cov := map[string]any{
		"states":                           max1(totalPaths),
		"transitions":                      max1(totalBranches),
		"traces_validated_against_impl":    validated,
		"samples":                          samples,
		"exhaustive":                       exhaustive && len(machinery) == 0,
		"functions_encoded":                kaiFuncs,
		"functions_encoded_count":          len(kaiFuncs),
		"bounds":                           map[string]any{"tier": c.tier, "solver_timeout_ms": c.timeoutMs, "unwind": c.unwind, "max_paths_per_harness": c.maxPaths},
		"obligations":                      sumReached(asserts),
		"discharged":                       sumDischarged(asserts),
		"assertions":                       asserts,
		"queries":                          totalQueries,
		"solver_s":                         round2(solverS),
		"solver_engines":                   byEngine,
		"unknowns":                         totalUnknown,
		"paths_with_unknown_feasibility":   unknownPaths,
		"havoc_kernels":                    havocK,
		"havoc_decisions":                  havocD,
		"fp_theory_ops":                    fpOps,
		"path_outcomes":                    outcomes,
		"harnesses":                        perHarness,
		"known_findings_hit":               knownLines,
		"machinery_errors":                 machinery,
		"load_s":                           round2(loadS),
		"translator_validation_mismatches": mismatches,
		"explanation":                      "Each harness is executed symbolically over the go/ssa of the current /repo tree; paths = feasible control-flow classes explored to exhaustion (DFS by re-execution, one z3 per worker); obligations = assertion instances decided by the solver for all values within the bounds; sampled paths and every counterexample are replayed against the natively compiled code.",
	}
	ev := map[string]any{
		"property_id": c.prop, "tier": c.tier, "seed": c.seed, "level": c.level, "coverage": cov,
		"assumptions": assumptions, "wall_s": round2(time.Since(start).Seconds()), "violations": nViol,
	}
	b, _ := json.MarshalIndent(ev, "", " ")
	if err := os.WriteFile(c.evidence, b, 0o644); err != nil {
		fmt.Fprintln(os.Stderr, "cannot write evidence:", err)
		return 2
	}
	fmt.Printf("[symgo] property %s tier=%s: paths=%d obligations=%d discharged=%d violations=%d known=%d validated=%d machinery_errors=%d wall=%.1fs exit=%d\n",
		c.prop, c.tier, totalPaths, sumReached(asserts), sumDischarged(asserts), nViol, len(knownLines), validated, len(machinery), time.Since(start).Seconds(), exit)
	return exit
}

// harnessAssumptions extracts the `// ASSUME:` comment lines of a harness function's file.
func harnessAssumptions(overlay map[string][]byte, fn string) ([]string, bool) {
	for _, data := range overlay {
		s := string(data)
		idx := strings.Index(s, "func "+fn+"()")
		if idx < 0 {
			continue
		}
		// doc comment directly above the function
		head := s[:idx]
		lines := strings.Split(strings.TrimRight(head, "\n"), "\n")
		var out []string
		for i := len(lines) - 1; i >= 0; i-- {
			l := strings.TrimSpace(lines[i])
			if !strings.HasPrefix(l, "//") {
				break
			}
			if t, ok := strings.CutPrefix(l, "// ASSUME:"); ok {
				out = append(out, fn+": "+strings.TrimSpace(t))
			}
			if t, ok := strings.CutPrefix(l, "// BOUND:"); ok {
				out = append(out, fn+" bound: "+strings.TrimSpace(t))
			}
		}
		return out, len(out) > 0
	}
	return nil, false
}

func sumReached(a map[string]*interp.AssertStat) int {
	n := 0
	for _, s := range a {
		n += s.Reached
	}
	return n
}
func sumDischarged(a map[string]*interp.AssertStat) int {
	n := 0
	for _, s := range a {
		n += s.Discharged
	}
	return n
}
func max1(n int) int {
	if n < 1 {
		return 1
	}
	return n
}
func round2(f float64) float64 { return float64(int64(f*100+0.5)) / 100 }
