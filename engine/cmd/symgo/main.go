// symgo: bounded symbolic execution of Go harnesses over the real KAI-Scheduler SSA.
package main

import (
	"context"
	"encoding/json"
	"flag"
	"fmt"
	"os"
	"os/exec"
	"path/filepath"
	"regexp"
	"sort"
	"strings"
	"sync"
	"time"

	"golang.org/x/tools/go/packages"
	"golang.org/x/tools/go/ssa"
	"golang.org/x/tools/go/ssa/ssautil"

	"verif/engine/interp"
)

const modPath = "github.com/NVIDIA/KAI-scheduler"
const rtPkg = modPath + "/pkg/zz_verifrt"

var stubPkgs = []string{
	"go.uber.org/zap",
	"github.com/go-logr/logr",
	"k8s.io/klog/v2",
	"github.com/prometheus/client_golang",
	"github.com/gogo/protobuf",
	"github.com/golang/protobuf",
	"google.golang.org/protobuf",
	"sigs.k8s.io/controller-runtime/pkg/log",
	modPath + "/pkg/scheduler/metrics",
}

type cfg struct {
	repo, hdir, prop, tier, run, outDir, evidence, known string
	workers, seed, maxPaths, samples, timeoutMs, unwind  int
	deadline                                             time.Duration
	verbose, noReplay, noMerge                           bool
	replay                                               string
	level                                                string
}

func goEnv(newToolchain bool) []string {
	env := os.Environ()
	out := env[:0:0]
	for _, e := range env {
		if strings.HasPrefix(e, "GOFLAGS=") || strings.HasPrefix(e, "GOPROXY=") || strings.HasPrefix(e, "GOTOOLCHAIN=") || strings.HasPrefix(e, "GOSUMDB=") || strings.HasPrefix(e, "PATH=") {
			continue
		}
		out = append(out, e)
	}
	path := os.Getenv("PATH")
	if newToolchain {
		out = append(out, "GOTOOLCHAIN=local")
	} else {
		path = strings.ReplaceAll(path, "/opt/veriftools/go1.26.8/bin:", "")
		out = append(out, "GOTOOLCHAIN=auto")
	}
	out = append(out, "PATH="+path, "GOFLAGS=-mod=mod", "GOPROXY=off")
	if newToolchain {
		out = append(out, "GOSUMDB=off")
	}
	return out
}

type harnessFile struct {
	real    string // file under /verif/harness
	virtual string // path under repo
	relPkg  string
}

func discover(c *cfg) ([]harnessFile, error) {
	var out []harnessFile
	err := filepath.Walk(c.hdir, func(p string, info os.FileInfo, err error) error {
		if err != nil || info.IsDir() || !strings.HasSuffix(p, ".go") {
			return err
		}
		rel, _ := filepath.Rel(c.hdir, p)
		dir := filepath.Dir(rel)
		if dir == "rt" {
			out = append(out, harnessFile{real: p, virtual: filepath.Join(c.repo, "pkg/zz_verifrt", filepath.Base(p)), relPkg: "pkg/zz_verifrt"})
			return nil
		}
		out = append(out, harnessFile{real: p, virtual: filepath.Join(c.repo, dir, filepath.Base(p)), relPkg: dir})
		return nil
	})
	return out, err
}

var funcRe = regexp.MustCompile(`(?m)^func (Verif[A-Za-z0-9_]+)\(\)`)

func main() {
	c := &cfg{}
	flag.StringVar(&c.repo, "repo", envOr("VERIF_REPO", "/repo"), "repository root")
	flag.StringVar(&c.hdir, "harness-dir", "/verif/harness", "harness directory")
	flag.StringVar(&c.prop, "prop", "", "property id (harness functions Verif<prop>_*)")
	flag.StringVar(&c.tier, "tier", envOr("VERIF_TIER", "quick"), "quick|thorough")
	flag.StringVar(&c.run, "run", "", "regexp selecting harness functions (default: ^Verif<prop>_)")
	flag.StringVar(&c.outDir, "out", "", "output directory for counterexamples and dumps")
	flag.StringVar(&c.evidence, "evidence", "", "evidence file to write")
	flag.StringVar(&c.known, "known", "/verif/known_findings.txt", "known findings file")
	flag.StringVar(&c.level, "level", "model_checking", "evidence level")
	flag.IntVar(&c.workers, "workers", 16, "parallel workers")
	flag.IntVar(&c.seed, "seed", envInt("VERIF_SEED", 1), "seed")
	flag.IntVar(&c.maxPaths, "max-paths", 0, "cap on paths per harness (0 = none)")
	flag.IntVar(&c.samples, "samples", 24, "paths per harness cross-validated natively")
	flag.IntVar(&c.timeoutMs, "solver-timeout-ms", 0, "per-query timeout (default 60000 quick, 300000 thorough)")
	flag.IntVar(&c.unwind, "unwind", 100000, "default loop unwinding bound per frame")
	flag.DurationVar(&c.deadline, "deadline", 0, "per-harness wall-clock cap (0 = none)")
	flag.BoolVar(&c.verbose, "v", false, "verbose")
	flag.BoolVar(&c.noMerge, "no-merge", false, "disable state merging (ite) at symbolic branches")
	flag.StringVar(&c.replay, "replay", "", "replay a counterexample file natively and exit")
	flag.BoolVar(&c.noReplay, "no-replay", false, "skip native replay/validation (development only; never registered)")
	flag.Parse()
	os.Setenv("PATH", "/opt/veriftools/go1.26.8/bin:"+os.Getenv("PATH"))
	if c.prop == "" {
		fmt.Fprintln(os.Stderr, "symgo: -prop required")
		os.Exit(2)
	}
	if c.run == "" {
		c.run = "^Verif" + c.prop + "_"
	}
	if c.outDir == "" {
		c.outDir = "/verif/out/" + c.prop
	}
	if c.evidence == "" {
		c.evidence = "/verif/evidence/" + c.prop + ".json"
	}
	if c.timeoutMs == 0 {
		c.timeoutMs = 60000
		if c.tier == "thorough" {
			c.timeoutMs = 300000
		}
	}
	os.Exit(run(c))
}

func envOr(k, d string) string {
	if v := os.Getenv(k); v != "" {
		return v
	}
	return d
}
func envInt(k string, d int) int {
	if v := os.Getenv(k); v != "" {
		var n int
		if _, err := fmt.Sscanf(v, "%d", &n); err == nil {
			return n
		}
	}
	return d
}

type harnessResult struct {
	run   *interp.HarnessRun
	stats *interp.SolverStats
	pkg   string
	wall  float64
}

func run(c *cfg) int {
	start := time.Now()
	if c.replay == "" {
		os.RemoveAll(c.outDir)
		os.MkdirAll(c.outDir, 0o755)
		os.MkdirAll(filepath.Dir(c.evidence), 0o755)
	}
	files, err := discover(c)
	if err != nil {
		return fail(c, "discover: "+err.Error())
	}
	runRe := regexp.MustCompile(c.run)
	overlay := map[string][]byte{}
	pkgFuncs := map[string][]string{} // relPkg -> all harness funcs (for the replay table)
	selected := map[string][]string{} // relPkg -> selected funcs
	for _, f := range files {
		data, err := os.ReadFile(f.real)
		if err != nil {
			return fail(c, err.Error())
		}
		overlay[f.virtual] = data
		for _, m := range funcRe.FindAllSubmatch(data, -1) {
			name := string(m[1])
			pkgFuncs[f.relPkg] = append(pkgFuncs[f.relPkg], name)
			if runRe.MatchString(name) {
				selected[f.relPkg] = append(selected[f.relPkg], name)
			}
		}
	}
	if c.replay != "" {
		return replayOnly(c, files, overlay, pkgFuncs)
	}
	if len(selected) == 0 {
		return fail(c, "no harness functions match "+c.run)
	}
	var patterns []string
	for p := range selected {
		patterns = append(patterns, "./"+p)
	}
	sort.Strings(patterns)
	// restrict the overlay to packages being loaded (+ runtime)
	for _, f := range files {
		if _, ok := selected[f.relPkg]; !ok && !strings.HasPrefix(filepath.Base(f.relPkg), "zz_verif") {
			delete(overlay, f.virtual)
		}
	}

	t0 := time.Now()
	pcfg := &packages.Config{
		Mode:    packages.LoadAllSyntax,
		Dir:     c.repo,
		Env:     goEnv(true),
		Overlay: overlay,
		// std-library assembly kernels are replaced by their own pure-Go twins (same package, same contract)
		BuildFlags: []string{"-tags=math_big_pure_go,purego"},
	}
	pkgs, err := packages.Load(pcfg, patterns...)
	if err != nil {
		return fail(c, "packages.Load: "+err.Error())
	}
	nerr := 0
	packages.Visit(pkgs, nil, func(p *packages.Package) {
		for _, e := range p.Errors {
			if nerr < 10 {
				fmt.Fprintln(os.Stderr, "load error:", e)
			}
			nerr++
		}
	})
	if nerr > 0 {
		return fail(c, fmt.Sprintf("%d package load errors (repo or harness does not compile)", nerr))
	}
	prog, _ := ssautil.AllPackages(pkgs, ssa.InstantiateGenerics)
	prog.Build()
	loadS := time.Since(t0).Seconds()
	fmt.Printf("[symgo] loaded %d root packages, SSA built in %.1fs\n", len(pkgs), loadS)

	env := interp.NewEnv(prog, rtPkg, stubPkgs)
	env.Workers = c.workers
	env.TimeoutMs = c.timeoutMs
	env.MaxPaths = c.maxPaths
	env.SampleCap = c.samples
	env.Unwind = c.unwind
	env.Deadline = c.deadline
	env.Verbose = c.verbose
	env.Tier = c.tier
	env.ModPath = modPath
	env.NoMerge = c.noMerge
	env.Progress = true
	env.DumpDir = filepath.Join(c.outDir, "smt")
	os.MkdirAll(env.DumpDir, 0o755)

	var results []*harnessResult
	env.Sem = make(chan struct{}, c.workers)
	type item struct {
		name string
		fn   *ssa.Function
		rel  string
	}
	var items []item
	for _, p := range pkgs {
		rel := strings.TrimPrefix(p.PkgPath, modPath+"/")
		names := selected[rel]
		sort.Strings(names)
		sp := prog.Package(p.Types)
		for _, n := range names {
			if c.tier != "thorough" && strings.HasSuffix(n, "_Thorough") {
				continue
			}
			fn := sp.Func(n)
			if fn == nil {
				return fail(c, "harness function not found in SSA: "+n)
			}
			items = append(items, item{n, fn, rel})
		}
	}
	if len(items) == 0 {
		return fail(c, "no harness functions selected for tier "+c.tier)
	}
	results = make([]*harnessResult, len(items))
	var wg sync.WaitGroup
	par := make(chan struct{}, 6)
	for i, it := range items {
		wg.Add(1)
		go func() {
			defer wg.Done()
			par <- struct{}{}
			defer func() { <-par }()
			hs := time.Now()
			h, st := env.Explore(it.name, it.fn)
			w := time.Since(hs).Seconds()
			results[i] = &harnessResult{run: h, stats: st, pkg: it.rel, wall: w}
			fmt.Printf("[symgo] %-40s paths=%d completed=%d pruned=%d panicked=%d errors=%d violations=%d queries=%d fp=%d merges=%d solver=%.1fs wall=%.1fs\n",
				it.name, h.Paths, h.Completed, h.Pruned, h.Panicked, len(h.Errors), len(h.Violations), st.Queries, h.FPOps, h.Merges, st.Seconds, w)
		}()
	}
	wg.Wait()
	return report(c, results, pkgFuncs, overlay, start, loadS)
}

func fail(c *cfg, msg string) int {
	fmt.Fprintln(os.Stderr, "symgo: MACHINERY ERROR:", msg)
	return 2
}

// ---- native replay

type job struct {
	Harness string            `json:"harness"`
	Model   map[string]string `json:"model"`
}

type nativeResult struct {
	Harness       string            `json:"harness"`
	FailedAsserts []string          `json:"failed_asserts"`
	AssumeFailed  bool              `json:"assume_failed"`
	Panic         string            `json:"panic"`
	Observes      map[string]string `json:"observes"`
	MissingInputs []string          `json:"missing_inputs"`
	NoPanicID     string            `json:"no_panic_id"`
	TimedOut      bool              `json:"timed_out"`
}

type replayer struct {
	c       *cfg
	bins    map[string]string // relPkg -> test binary
	overlay string
	err     error
}

func newReplayer(c *cfg, pkgFuncs map[string][]string, overlay map[string][]byte, pkgsNeeded map[string]bool) *replayer {
	r := &replayer{c: c, bins: map[string]string{}}
	ovDir := filepath.Join(c.outDir, "overlay")
	os.MkdirAll(ovDir, 0o755)
	repl := map[string]string{}
	i := 0
	for virt, data := range overlay {
		i++
		real := filepath.Join(ovDir, fmt.Sprintf("f%03d_%s", i, filepath.Base(virt)))
		os.WriteFile(real, data, 0o644)
		repl[virt] = real
	}
	for rel := range pkgsNeeded {
		pkgName, err := packageName(overlay, filepath.Join(c.repo, rel))
		if err != nil {
			r.err = err
			return r
		}
		var sb strings.Builder
		fmt.Fprintf(&sb, "package %s\n\nimport (\n\t\"testing\"\n\tverifrt \"%s\"\n)\n\nfunc TestVerifReplay(t *testing.T) {\n\tif err := verifrt.Main(map[string]func(){\n", pkgName, rtPkg)
		fs := pkgFuncs[rel]
		sort.Strings(fs)
		for _, f := range fs {
			fmt.Fprintf(&sb, "\t\t%q: %s,\n", f, f)
		}
		sb.WriteString("\t}); err != nil {\n\t\tt.Fatal(err)\n\t}\n}\n")
		real := filepath.Join(ovDir, "replay_"+strings.ReplaceAll(rel, "/", "_")+"_test.go")
		os.WriteFile(real, []byte(sb.String()), 0o644)
		repl[filepath.Join(c.repo, rel, "zz_verif_replay_test.go")] = real
	}
	ovJSON, _ := json.Marshal(map[string]any{"Replace": repl})
	r.overlay = filepath.Join(ovDir, "overlay.json")
	os.WriteFile(r.overlay, ovJSON, 0o644)
	for rel := range pkgsNeeded {
		bin := filepath.Join(c.outDir, "replay_"+strings.ReplaceAll(rel, "/", "_")+".test")
		gobin := "/usr/bin/go"
		if _, err := os.Stat(gobin); err != nil {
			gobin = "go"
		}
		cmd := exec.Command(gobin, "test", "-c", "-vet=off", "-overlay", r.overlay, "-o", bin, "./"+rel)
		cmd.Dir = c.repo
		cmd.Env = goEnv(false)
		out, err := cmd.CombinedOutput()
		if err != nil {
			r.err = fmt.Errorf("building native replay binary for %s: %v\n%s", rel, err, out)
			return r
		}
		r.bins[rel] = bin
	}
	return r
}

func packageName(overlay map[string][]byte, dir string) (string, error) {
	re := regexp.MustCompile(`(?m)^package ([A-Za-z0-9_]+)`)
	for virt, data := range overlay {
		if filepath.Dir(virt) == dir {
			if m := re.FindSubmatch(data); m != nil {
				return string(m[1]), nil
			}
		}
	}
	return "", fmt.Errorf("no package clause for %s", dir)
}

func (r *replayer) runJobs(rel string, jobs []job, timeout time.Duration, tag string) ([]nativeResult, bool, error) {
	jf := filepath.Join(r.c.outDir, "jobs_"+tag+".json")
	of := filepath.Join(r.c.outDir, "native_"+tag+".json")
	b, _ := json.Marshal(jobs)
	os.WriteFile(jf, b, 0o644)
	os.Remove(of)
	ctx, cancel := context.WithTimeout(context.Background(), timeout)
	defer cancel()
	cmd := exec.CommandContext(ctx, r.bins[rel], "-test.run", "^TestVerifReplay$", "-test.count=1", "-test.timeout", "0")
	cmd.Dir = filepath.Join(r.c.repo, rel)
	cmd.Env = append(os.Environ(), "VERIF_JOBS="+jf, "VERIF_OUT="+of)
	out, err := cmd.CombinedOutput()
	if ctx.Err() == context.DeadlineExceeded {
		return nil, true, nil
	}
	data, rerr := os.ReadFile(of)
	if rerr != nil {
		// a fatal runtime error (unbounded recursion overflowing the stack, concurrent map writes ...)
		// kills the process before it can write its result: for a single replayed counterexample that
		// IS the reproduction of a crash
		if len(jobs) == 1 && (strings.Contains(string(out), "stack overflow") || strings.Contains(string(out), "fatal error:")) {
			return []nativeResult{{Harness: jobs[0].Harness, Panic: "fatal runtime error: " + firstLine(string(out), "fatal error:")}}, false, nil
		}
		return nil, false, fmt.Errorf("native run failed: %v\n%s", err, tail(string(out), 2000))
	}
	var res []nativeResult
	if err := json.Unmarshal(data, &res); err != nil {
		return nil, false, err
	}
	return res, false, nil
}

func firstLine(s, marker string) string {
	if i := strings.Index(s, marker); i >= 0 {
		s = s[i:]
	}
	if j := strings.Index(s, "\n"); j >= 0 {
		s = s[:j]
	}
	return s
}

func tail(s string, n int) string {
	if len(s) > n {
		return s[len(s)-n:]
	}
	return s
}

// replayOnly re-runs one stored counterexample against the natively compiled current tree.
func replayOnly(c *cfg, files []harnessFile, overlay map[string][]byte, pkgFuncs map[string][]string) int {
	data, err := os.ReadFile(c.replay)
	if err != nil {
		return fail(c, err.Error())
	}
	var v struct {
		Harness  string            `json:"harness"`
		AssertID string            `json:"assert_id"`
		Kind     string            `json:"kind"`
		Model    map[string]string `json:"model"`
	}
	if err := json.Unmarshal(data, &v); err != nil {
		return fail(c, err.Error())
	}
	rel := ""
	for p, fs := range pkgFuncs {
		for _, f := range fs {
			if f == v.Harness {
				rel = p
			}
		}
	}
	if rel == "" {
		return fail(c, "harness "+v.Harness+" not found")
	}
	for _, f := range files {
		if f.relPkg != rel && !strings.HasPrefix(filepath.Base(f.relPkg), "zz_verif") {
			delete(overlay, f.virtual)
		}
	}
	c.outDir = c.outDir + "-replay"
	os.RemoveAll(c.outDir)
	os.MkdirAll(c.outDir, 0o755)
	rp := newReplayer(c, pkgFuncs, overlay, map[string]bool{rel: true})
	if rp.err != nil {
		return fail(c, rp.err.Error())
	}
	res, timedOut, err := rp.runJobs(rel, []job{{v.Harness, v.Model}}, 60*time.Second, "replay")
	if err != nil {
		return fail(c, err.Error())
	}
	repro := false
	if timedOut {
		repro = v.Kind == "unwind"
		fmt.Println("native run did not terminate within 60s")
	} else {
		nr := res[0]
		fmt.Printf("native: failed_asserts=%v panic=%q assume_failed=%v observes=%v\n", nr.FailedAsserts, nr.Panic, nr.AssumeFailed, nr.Observes)
		for _, id := range nr.FailedAsserts {
			if id == v.AssertID {
				repro = true
			}
		}
		if v.Kind == "panic" && nr.Panic != "" {
			repro = true
		}
		if v.Kind == "unwind" && strings.HasPrefix(nr.Panic, "fatal runtime error") {
			repro = true
		}
	}
	if repro {
		fmt.Printf("VIOLATION property=%s replay=%s\n", c.prop, c.replay)
		return 1
	}
	fmt.Println("counterexample does not reproduce on the current tree")
	return 0
}
