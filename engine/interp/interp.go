// Copyright 2013 The Go Authors. All rights reserved.
// Use of this source code is governed by a BSD-style
// license that can be found in the LICENSE file.
//
// Derived from golang.org/x/tools/go/ssa/interp (v0.50.0): the instruction semantics are the
// original's; values may carry symbolic scalars, branches on symbolic conditions consult the
// path explorer, package initialisers run lazily, goroutines run to completion at `go`.

package interp

import (
	"fmt"
	"go/token"
	"go/types"
	"runtime"
	"slices"
	"strings"

	"golang.org/x/tools/go/ssa"
)

type continuation int

const (
	kNext continuation = iota
	kReturn
	kJump
)

// State of one path execution.
type interpreter struct {
	prog               *ssa.Program
	globals            map[*ssa.Global]*value
	initState          map[*ssa.Package]int // 0 not run, 1 running, 2 done
	splitInits         bool                 // nested package initialisers are initialised one by one (see ensureInit)
	runtimeErrorString types.Type
	px                 *pathExec
	env                *Env
}

type deferred struct {
	fn    value
	args  []value
	instr *ssa.Defer
	tail  *deferred
}

type frame struct {
	i                *interpreter
	caller           *frame
	fn               *ssa.Function
	block, prevBlock *ssa.BasicBlock
	env              map[ssa.Value]value // dynamic values of SSA variables
	locals           []value
	defers           *deferred
	result           value
	panicking        bool
	panic            any
	phitemps         []value // temporaries for parallel phi assignment
	backEdges        map[*ssa.BasicBlock]int
	phiOverride      map[*ssa.Phi]value
}

func (fr *frame) get(key ssa.Value) value {
	switch key := key.(type) {
	case nil:
		return nil
	case *ssa.Function, *ssa.Builtin:
		return key
	case *ssa.Const:
		return constValue(key)
	case *ssa.Global:
		p := fr.i.global(key)
		fr.i.checkGlobalRead(key)
		return p
	}
	if r, ok := fr.env[key]; ok {
		return r
	}
	panic(engineError{fmt.Sprintf("get: no value for %T: %v", key, key.Name())})
}

func (i *interpreter) global(g *ssa.Global) *value {
	if r, ok := i.globals[g]; ok {
		return r
	}
	cell := zero(mustDeref(g.Type()))
	p := &cell
	i.globals[g] = p
	if g.Pkg != nil {
		i.ensureInit(g.Pkg)
	}
	return p
}

// checkGlobalRead rejects reads of package-level state of packages whose initialiser could not be
// interpreted completely.
func (i *interpreter) checkGlobalRead(g *ssa.Global) {
	if g.Pkg != nil && i.initState[g.Pkg] == 3 && i.px.inInit == 0 {
		panic(engineError{"read of package-level variable " + g.String() + " of a package whose initialiser could not be interpreted: " + i.px.initFailed[g.Pkg.Pkg.Path()]})
	}
}

// ensureInit lazily runs the package initialiser of pkg (not of its dependencies: those run when
// first touched). Stubbed packages are never initialised.
func (i *interpreter) ensureInit(pkg *ssa.Package) {
	if pkg == nil || i.initState[pkg] != 0 {
		return
	}
	if i.env.isStubPkg(pkg.Pkg.Path()) || noInitPkg(pkg.Pkg.Path()) || pkg.Pkg.Path() == i.env.RtPkgPath {
		i.initState[pkg] = 2
		return
	}
	if i.env.Verbose {
		fmt.Printf("  init %s\n", pkg.Pkg.Path())
	}
	i.initState[pkg] = 1
	if i.px.inInit == 0 {
		// Per-package handling of nested initialisers (every imported package initialised on its own
		// terms, Scheme-building ones tolerated) costs a lot per path; it is switched on only for
		// harness packages whose own initialiser needs it (pkg/scheduler/cache: AddToScheme in init).
		i.splitInits = strings.HasSuffix(pkg.Pkg.Path(), "/pkg/scheduler/cache")
	}
	if init := pkg.Func("init"); init != nil && init.Blocks != nil {
		saved := i.px.inInit
		i.px.inInit++
		// generated clientset packages build a runtime.Scheme (reflection) like third-party code does
		thirdParty := !strings.HasPrefix(pkg.Pkg.Path(), i.env.ModPath) || strings.Contains(pkg.Pkg.Path(), "/pkg/apis/client/clientset/")
		failed := false
		func() {
			defer func() {
				if r := recover(); r != nil {
					if !thirdParty && !strings.Contains(fmt.Sprint(r)+i.px.panicTrace, "apimachinery/pkg/runtime.Scheme") && !strings.Contains(fmt.Sprint(r)+i.px.panicTrace, "apimachinery/pkg/runtime.NewScheme") {
						panic(r)
					}
					// A third-party initialiser that cannot be interpreted (reflection-built tables,
					// registries): the package is marked; any later read of its package-level state
					// outside initialisers is a machinery error, so nothing is silently zero.
					switch r.(type) {
					case targetPanic, runtimePanic, engineError:
						failed = true
						i.px.panicTrace = ""
						i.px.initFailed[pkg.Pkg.Path()] = fmt.Sprint(r)
					default:
						panic(r)
					}
				}
			}()
			callSSA(i, nil, token.NoPos, init, nil, nil)
		}()
		i.px.inInit = saved
		if failed {
			i.initState[pkg] = 3
			return
		}
	}
	i.initState[pkg] = 2
}

// noInitPkg lists packages whose initialisers are never interpreted (runtime internals; their
// package-level state is not read by interpreted code).
func noInitPkg(path string) bool {
	switch path {
	case "runtime", "reflect", "syscall", "unsafe", "os", "sync", "sync/atomic", "testing", "internal/reflectlite", "iter", "unique", "weak", "errors":
		return true
	}
	return strings.HasPrefix(path, "runtime/") || strings.HasPrefix(path, "internal/") || strings.HasPrefix(path, "vendor/")
}

// runDefer runs a deferred call d.
// It always returns normally, but may set or clear fr.panic.
func (fr *frame) runDefer(d *deferred) {
	var ok bool
	defer func() {
		if !ok {
			// Deferred call created a new state of panic.
			r := recover()
			if isEngineAbort(r) {
				panic(r)
			}
			fr.panicking = true
			fr.panic = r
		}
	}()
	call(fr.i, fr, d.instr.Pos(), d.fn, d.args)
	ok = true
}

func (fr *frame) runDefers() {
	for d := fr.defers; d != nil; d = d.tail {
		fr.runDefer(d)
	}
	fr.defers = nil
	if fr.panicking {
		panic(fr.panic) // new panic, or still panicking
	}
}

func lookupMethod(i *interpreter, typ types.Type, meth *types.Func) *ssa.Function {
	return i.prog.LookupMethod(typ, meth.Pkg(), meth.Name())
}

// visitInstr interprets a single ssa.Instruction within the activation
// record frame.  It returns a continuation value indicating where to
// read the next instruction from.
func visitInstr(fr *frame, instr ssa.Instruction) continuation {
	px := fr.i.px
	px.steps++
	if px.steps > px.maxSteps {
		panic(budgetExceeded{fmt.Sprintf("instruction budget %d exceeded in %s", px.maxSteps, fr.fn)})
	}
	switch instr := instr.(type) {
	case *ssa.DebugRef:
		// no-op

	case *ssa.UnOp:
		fr.env[instr] = unop(fr, instr, fr.get(instr.X))

	case *ssa.BinOp:
		fr.env[instr] = binop(fr, instr.Op, instr.X.Type(), fr.get(instr.X), fr.get(instr.Y))

	case *ssa.Call:
		fn, args := prepareCall(fr, &instr.Call)
		fr.env[instr] = call(fr.i, fr, instr.Pos(), fn, args)

	case *ssa.ChangeInterface:
		fr.env[instr] = fr.get(instr.X)

	case *ssa.ChangeType:
		fr.env[instr] = fr.get(instr.X) // (can't fail)

	case *ssa.Convert:
		fr.env[instr] = conv(fr, instr.Type(), instr.X.Type(), fr.get(instr.X))

	case *ssa.MultiConvert:
		fr.env[instr] = conv(fr, instr.Type(), instr.X.Type(), fr.get(instr.X))

	case *ssa.SliceToArrayPointer:
		fr.env[instr] = sliceToArrayPointer(instr.Type(), instr.X.Type(), fr.get(instr.X))

	case *ssa.MakeInterface:
		fr.env[instr] = iface{t: instr.X.Type(), v: fr.get(instr.X)}

	case *ssa.Extract:
		fr.env[instr] = fr.get(instr.Tuple).(tuple)[instr.Index]

	case *ssa.Slice:
		fr.env[instr] = slice(fr, fr.get(instr.X), fr.get(instr.Low), fr.get(instr.High), fr.get(instr.Max))

	case *ssa.Return:
		switch len(instr.Results) {
		case 0:
		case 1:
			fr.result = fr.get(instr.Results[0])
		default:
			var res []value
			for _, r := range instr.Results {
				res = append(res, fr.get(r))
			}
			fr.result = tuple(res)
		}
		fr.block = nil
		return kReturn

	case *ssa.RunDefers:
		fr.runDefers()

	case *ssa.Panic:
		panic(targetPanic{fr.get(instr.X)})

	case *ssa.Send:
		ch := fr.get(instr.Chan).(*chanV)
		if ch == nil {
			panic(engineError{"send on nil channel (would block forever)"})
		}
		if ch.closed {
			panic(runtimePanic{"send on closed channel"})
		}
		ch.buf = append(ch.buf, fr.get(instr.X))

	case *ssa.Store:
		addr := fr.get(instr.Addr).(*value)
		if addr == nil {
			panic(runtimePanic{"invalid memory address or nil pointer dereference"})
		}
		store(mustDeref(instr.Addr.Type()), addr, fr.get(instr.Val))

	case *ssa.If:
		switch c := fr.get(instr.Cond).(type) {
		case bool:
			if c {
				fr.jump(fr.block.Succs[0])
			} else {
				fr.jump(fr.block.Succs[1])
			}
		case SymBool:
			cond, tBlk, fBlk, tPred, fPred, merged := fr.tryMerge(instr, c.T)
			if merged {
				return kJump
			}
			if fr.decide(cond, "if") {
				fr.block = tPred
				fr.jump(tBlk)
			} else {
				fr.block = fPred
				fr.jump(fBlk)
			}
		default:
			panic(engineError{fmt.Sprintf("If on %T", c)})
		}
		return kJump

	case *ssa.Jump:
		fr.jump(fr.block.Succs[0])
		return kJump

	case *ssa.Defer:
		fn, args := prepareCall(fr, &instr.Call)
		defers := &fr.defers
		if into := fr.get(instr.DeferStack); into != nil {
			defers = into.(**deferred)
		}
		*defers = &deferred{
			fn:    fn,
			args:  args,
			instr: instr,
			tail:  *defers,
		}

	case *ssa.Go:
		// Goroutines are run to completion at the point of creation (DESIGN §2.1).
		fn, args := prepareCall(fr, &instr.Call)
		px.goroutinesRun++
		call(fr.i, nil, instr.Pos(), fn, args)

	case *ssa.MakeChan:
		fr.env[instr] = &chanV{cap: int(asInt64(fr.get(instr.Size)))}

	case *ssa.Alloc:
		var addr *value
		if instr.Heap {
			addr = new(value)
			fr.env[instr] = addr
		} else {
			addr = fr.env[instr].(*value)
		}
		*addr = zero(mustDeref(instr.Type()))

	case *ssa.MakeSlice:
		n := asInt64(fr.concretize(fr.get(instr.Cap), "makeslice.cap"))
		l := asInt64(fr.concretize(fr.get(instr.Len), "makeslice.len"))
		if l < 0 || n < l {
			panic(runtimePanic{"makeslice: len out of range"})
		}
		if n > 1<<24 {
			panic(runtimePanic{fmt.Sprintf("makeslice: cap %d too large for engine (would exhaust memory natively as well if > available)", n)})
		}
		slice := make([]value, n)
		tElt := instr.Type().Underlying().(*types.Slice).Elem()
		for i := range slice {
			slice[i] = zero(tElt)
		}
		fr.env[instr] = slice[:l]

	case *ssa.MakeMap:
		fr.env[instr] = makeMap(instr.Type().Underlying().(*types.Map).Key(), 0)

	case *ssa.Range:
		fr.env[instr] = rangeIter(fr.get(instr.X))

	case *ssa.Next:
		fr.env[instr] = fr.get(instr.Iter).(iter).next()

	case *ssa.FieldAddr:
		p := fr.get(instr.X).(*value)
		if p == nil {
			panic(runtimePanic{"invalid memory address or nil pointer dereference"})
		}
		fr.env[instr] = &(*p).(structure)[instr.Field]

	case *ssa.Field:
		fr.env[instr] = copyVal(fr.get(instr.X).(structure)[instr.Field])

	case *ssa.IndexAddr:
		x := fr.get(instr.X)
		idx := asInt64(fr.concretize(fr.get(instr.Index), "index"))
		switch x := x.(type) {
		case []value:
			if idx < 0 || idx >= int64(len(x)) {
				panic(runtimePanic{fmt.Sprintf("index out of range [%d] with length %d", idx, len(x))})
			}
			fr.env[instr] = &x[idx]
		case *value: // *array
			if x == nil {
				panic(runtimePanic{"invalid memory address or nil pointer dereference"})
			}
			a := (*x).(array)
			if idx < 0 || idx >= int64(len(a)) {
				panic(runtimePanic{fmt.Sprintf("index out of range [%d] with length %d", idx, len(a))})
			}
			fr.env[instr] = &a[idx]
		default:
			panic(engineError{fmt.Sprintf("unexpected x type in IndexAddr: %T", x)})
		}

	case *ssa.Index:
		x := fr.get(instr.X)
		idx := asInt64(fr.concretize(fr.get(instr.Index), "index"))
		switch x := x.(type) {
		case array:
			if idx < 0 || idx >= int64(len(x)) {
				panic(runtimePanic{fmt.Sprintf("index out of range [%d] with length %d", idx, len(x))})
			}
			fr.env[instr] = copyVal(x[idx])
		case string:
			if idx < 0 || idx >= int64(len(x)) {
				panic(runtimePanic{fmt.Sprintf("index out of range [%d] with length %d", idx, len(x))})
			}
			fr.env[instr] = x[idx]
		case SymString:
			if idx < 0 || idx >= int64(len(x.B)) {
				panic(runtimePanic{fmt.Sprintf("index out of range [%d] with length %d", idx, len(x.B))})
			}
			fr.env[instr] = x.B[idx]
		default:
			panic(engineError{fmt.Sprintf("unexpected x type in Index: %T", x)})
		}

	case *ssa.Lookup:
		x := fr.get(instr.X)
		if s, ok := x.(string); ok {
			idx := asInt64(fr.concretize(fr.get(instr.Index), "index"))
			if idx < 0 || idx >= int64(len(s)) {
				panic(runtimePanic{fmt.Sprintf("index out of range [%d] with length %d", idx, len(s))})
			}
			fr.env[instr] = s[idx]
		} else if ss, ok := x.(SymString); ok {
			idx := asInt64(fr.concretize(fr.get(instr.Index), "index"))
			if idx < 0 || idx >= int64(len(ss.B)) {
				panic(runtimePanic{fmt.Sprintf("index out of range [%d] with length %d", idx, len(ss.B))})
			}
			fr.env[instr] = ss.B[idx]
		} else {
			fr.env[instr] = lookup(fr, instr, x, fr.get(instr.Index))
		}

	case *ssa.MapUpdate:
		m := fr.get(instr.Map).(*omap)
		if m == nil {
			panic(runtimePanic{"assignment to entry in nil map"})
		}
		m.insertF(fr, fr.get(instr.Key), copyVal(fr.get(instr.Value)))

	case *ssa.TypeAssert:
		fr.env[instr] = typeAssert(instr, fr.get(instr.X).(iface))

	case *ssa.MakeClosure:
		var bindings []value
		for _, binding := range instr.Bindings {
			bindings = append(bindings, fr.get(binding))
		}
		fr.env[instr] = &closure{instr.Fn.(*ssa.Function), bindings}

	case *ssa.Phi:
		panic(engineError{"unreachable: phi"})

	case *ssa.Select:
		fr.env[instr] = fr.doSelect(instr)

	default:
		panic(engineError{fmt.Sprintf("unexpected instruction: %T", instr)})
	}
	return kNext
}

func (fr *frame) jump(to *ssa.BasicBlock) {
	if to.Index <= fr.block.Index {
		if fr.backEdges == nil {
			fr.backEdges = map[*ssa.BasicBlock]int{}
		}
		fr.backEdges[to]++
		if fr.backEdges[to] > fr.i.px.unwind {
			panic(unwindExceeded{fn: fr.fn.String(), n: fr.i.px.unwind})
		}
	}
	fr.prevBlock, fr.block = fr.block, to
}

// doSelect: with run-to-completion goroutines a select picks the first ready case in order
// (recv on non-empty/closed channel, send on open channel), else default, else engine error.
func (fr *frame) doSelect(instr *ssa.Select) value {
	chosen := -1
	var recv value
	recvOk := false
	for i, st := range instr.States {
		ch, _ := fr.get(st.Chan).(*chanV)
		if ch == nil {
			continue
		}
		if st.Dir == types.RecvOnly {
			if len(ch.buf) > 0 {
				recv, ch.buf = ch.buf[0], ch.buf[1:]
				recvOk = true
				chosen = i
				break
			}
			if ch.closed {
				chosen = i
				break
			}
		} else {
			if ch.closed {
				panic(runtimePanic{"send on closed channel"})
			}
			ch.buf = append(ch.buf, fr.get(st.Send))
			chosen = i
			break
		}
	}
	if chosen < 0 {
		// nothing is ready: time passes until a pending timer (time.After) fires
		for i, st := range instr.States {
			if ch, _ := fr.get(st.Chan).(*chanV); ch != nil && ch.timer && st.Dir == types.RecvOnly {
				chosen = i
				recv = zero(st.Chan.Type().Underlying().(*types.Chan).Elem())
				recvOk = true
				break
			}
		}
	}
	if chosen < 0 && instr.Blocking {
		panic(engineError{"select would block (no ready case; engine has no scheduler)"})
	}
	r := tuple{chosen, recvOk}
	for i, st := range instr.States {
		if st.Dir == types.RecvOnly {
			var v value
			if i == chosen && recvOk {
				v = recv
			} else {
				v = zero(st.Chan.Type().Underlying().(*types.Chan).Elem())
			}
			r = append(r, v)
		}
	}
	return r
}

// prepareCall determines the function value and argument values for a
// function call in a Call, Go or Defer instruction, performing
// interface method lookup if needed.
func prepareCall(fr *frame, call *ssa.CallCommon) (fn value, args []value) {
	v := fr.get(call.Value)
	if call.Method == nil {
		fn = v
	} else {
		recv := v.(iface)
		if recv.t == nil && fr.i.px.inInit > 0 && call.Method.Pkg() != nil && (call.Method.Pkg().Path() == "reflect" || call.Method.Pkg().Path() == "internal/reflectlite") {
			// stubbed reflection inside a package initialiser: methods of the nil reflect.Type return zero values
			m := call.Method
			return &closure{Fn: nil}, []value{m}
		}
		if recv.t == nil {
			panic(runtimePanic{"invalid memory address or nil pointer dereference (method " + call.Method.Name() + " invoked on nil interface)"})
		}
		if f := lookupMethod(fr.i, recv.t, call.Method); f == nil {
			panic(engineError{fmt.Sprintf("method set for dynamic type %v does not contain %s", recv.t, call.Method)})
		} else {
			fn = f
		}
		args = append(args, copyVal(recv.v))
	}
	for _, arg := range call.Args {
		args = append(args, copyVal(fr.get(arg)))
	}
	return
}

// call interprets a call to a function (function, builtin or closure)
// fn with arguments args, returning its result.
func call(i *interpreter, caller *frame, callpos token.Pos, fn value, args []value) value {
	switch fn := fn.(type) {
	case *ssa.Function:
		if fn == nil {
			panic(runtimePanic{"invalid memory address or nil pointer dereference (call of nil func)"})
		}
		return callSSA(i, caller, callpos, fn, args, nil)
	case *closure:
		if fn.Fn == nil {
			// reflect-stub marker from prepareCall
			m := args[0].(*types.Func)
			res := m.Type().(*types.Signature).Results()
			switch res.Len() {
			case 0:
				return nil
			case 1:
				return zero(res.At(0).Type())
			}
			return zero(res)
		}
		return callSSA(i, caller, callpos, fn.Fn, args, fn.Env)
	case *ssa.Builtin:
		return callBuiltin(caller, fn, args)
	}
	panic(engineError{fmt.Sprintf("cannot call %T", fn)})
}

func fnPkgPath(fn *ssa.Function) string {
	for f := fn; f != nil; f = f.Parent() {
		if f.Pkg != nil {
			return f.Pkg.Pkg.Path()
		}
		if o := f.Origin(); o != nil && o.Pkg != nil {
			return o.Pkg.Pkg.Path()
		}
		if obj := f.Object(); obj != nil && obj.Pkg() != nil {
			return obj.Pkg().Path()
		}
		if f.Signature != nil && f.Signature.Recv() != nil {
			t := f.Signature.Recv().Type()
			if p, ok := types.Unalias(t).(*types.Pointer); ok {
				t = p.Elem()
			}
			if n, ok := types.Unalias(t).(*types.Named); ok && n.Obj().Pkg() != nil {
				return n.Obj().Pkg().Path()
			}
		}
	}
	return ""
}

func fnPkg(fn *ssa.Function) *ssa.Package {
	for f := fn; f != nil; f = f.Parent() {
		if f.Pkg != nil {
			return f.Pkg
		}
		if o := f.Origin(); o != nil && o.Pkg != nil {
			return o.Pkg
		}
	}
	return nil
}

// callSSA interprets a call to function fn with arguments args,
// and lexical environment env, returning its result.
func callSSA(i *interpreter, caller *frame, callpos token.Pos, fn *ssa.Function, args []value, env []value) value {
	if i.splitInits && caller != nil && fn.Name() == "init" && fn.Pkg != nil && fn == fn.Pkg.Func("init") && caller.fn != fn {
		// a package initialiser calling the initialiser of an imported package: initialise that
		// package on its own terms (failure of a reflection-heavy initialiser is recorded per package)
		i.ensureInit(fn.Pkg)
		return nil
	}
	fr := &frame{
		i:      i,
		caller: caller, // for panic/recover
		fn:     fn,
	}
	px := i.px
	px.depth++
	if px.depth > 2000 {
		panic(unwindExceeded{fn: fn.String() + " (call depth)", n: 2000})
	}
	defer func() { px.depth-- }()

	if caller != nil && fn.Synthetic == "package initializer" {
		return nil // dependencies are initialised lazily, when first touched
	}
	if fn.Parent() == nil {
		name := fn.String()
		if px.skipFns != nil && px.skipFns[name] {
			// verifrt.SkipCalls: the harness replaces this function's effect by its own (contract) values
			return zeroResults(fn)
		}
		if ext := i.env.intrinsic(name, fn); ext != nil {
			return ext(fr, args)
		}
		if fn.Blocks == nil {
			if pkg := fnPkg(fn); pkg != nil && i.env.built != nil {
				i.env.buildPkg(pkg)
			}
			if fn.Blocks == nil {
				st := ""
				if caller != nil {
					st = caller.stack()
				}
				panic(engineError{"no code for function: " + name + " [interp stack: " + st + "]"})
			}
		}
	}
	if px.inInit == 0 {
		px.funcs[fn] = struct{}{}
	}
	if pkg := fnPkg(fn); pkg != nil && i.initState[pkg] == 0 && fn.Name() != "init" {
		i.ensureInit(pkg)
	}

	if fn.TypeParams().Len() > 0 && len(fn.TypeArgs()) == 0 {
		panic(engineError{"uninstantiated generic function " + fn.String()})
	}

	fr.env = make(map[ssa.Value]value, len(fn.Params)+len(fn.Locals)+8)
	fr.block = fn.Blocks[0]
	fr.locals = make([]value, len(fn.Locals))
	for i, l := range fn.Locals {
		fr.locals[i] = zero(mustDeref(l.Type()))
		fr.env[l] = &fr.locals[i]
	}
	for i, p := range fn.Params {
		fr.env[p] = args[i]
	}
	for i, fv := range fn.FreeVars {
		fr.env[fv] = env[i]
	}
	for fr.block != nil {
		runFrame(fr)
	}
	return fr.result
}

func isEngineAbort(r any) bool {
	switch r.(type) {
	case engineError, domainExit, budgetExceeded, unwindExceeded, pathEnd:
		return true
	case targetPanic, runtimePanic:
		return false
	case nil:
		return false
	}
	// host runtime errors and anything else are engine bugs, never target behaviour
	return true
}

// runFrame executes SSA instructions starting at fr.block and
// continuing until a return, a panic, or a recovered panic.
func runFrame(fr *frame) {
	defer func() {
		if fr.block == nil {
			return // normal return
		}
		r := recover()
		if isEngineAbort(r) {
			if re, ok := r.(runtime.Error); ok {
				buf := make([]byte, 1<<14)
				n := runtime.Stack(buf, false)
				_ = buf[:n]
				panic(engineError{fmt.Sprintf("host runtime error in %s: %v [interp stack: %s]", fr.fn, re, fr.stack())})
			}
			panic(r)
		}
		if fr.i.px.panicTrace == "" {
			fr.i.px.panicTrace = fr.stack()
		}
		fr.panicking = true
		fr.panic = r
		fr.runDefers()
		fr.block = fr.fn.Recover
		if fr.block == nil {
			// recovered panic in a function without named results: return zero values
			fr.result = zero(fr.fn.Signature.Results())
			if fr.fn.Signature.Results().Len() == 0 {
				fr.result = nil
			}
		}
	}()

	for {
		nonPhis := executePhis(fr)
		for _, instr := range nonPhis {
			if visitInstr(fr, instr) == kReturn {
				return
			}
		}
	}
}

func (fr *frame) stackFromCaller() string {
	if fr.caller != nil {
		return fr.caller.stack()
	}
	return ""
}

func (fr *frame) stack() string {
	var sb strings.Builder
	n := 0
	for f := fr; f != nil && n < 12; f = f.caller {
		sb.WriteString(f.fn.String())
		sb.WriteString(" <- ")
		n++
	}
	return sb.String()
}

// executePhis executes the phi-nodes at the start of the current
// block and returns the non-phi instructions.
func executePhis(fr *frame) []ssa.Instruction {
	firstNonPhi := -1
	for i, instr := range fr.block.Instrs {
		if _, ok := instr.(*ssa.Phi); !ok {
			firstNonPhi = i
			break
		}
	}
	nonPhis := fr.block.Instrs[firstNonPhi:]
	if firstNonPhi > 0 {
		phis := fr.block.Instrs[:firstNonPhi]
		predIndex := slices.Index(fr.block.Preds, fr.prevBlock)
		fr.phitemps = fr.phitemps[:0]
		for _, phi := range phis {
			phi := phi.(*ssa.Phi)
			if v, ok := fr.phiOverride[phi]; ok {
				fr.phitemps = append(fr.phitemps, v)
				continue
			}
			fr.phitemps = append(fr.phitemps, fr.get(phi.Edges[predIndex]))
		}
		fr.phiOverride = nil
		for i, phi := range phis {
			fr.env[phi.(*ssa.Phi)] = fr.phitemps[i]
		}
	}
	return nonPhis
}

// doRecover implements the recover() built-in.
func doRecover(caller *frame) value {
	if caller != nil && !caller.panicking &&
		caller.caller != nil && caller.caller.panicking {
		caller.caller.panicking = false
		p := caller.caller.panic
		caller.caller.panic = nil
		caller.i.px.panicTrace = ""
		switch p := p.(type) {
		case targetPanic:
			return p.v
		case runtimePanic:
			return iface{caller.i.runtimeErrorString, p.Error()}
		default:
			panic(engineError{fmt.Sprintf("unexpected panic type %T in target call to recover()", p)})
		}
	}
	return iface{}
}
