package interp

import (
	"fmt"
	"go/token"
	"go/types"
	"math"
	"sort"
	"strings"
	"sync"
	"time"

	"golang.org/x/tools/go/ssa"
	"verif/engine/smt"
)

// ---- abort signals (host panics that are not target behaviour)

type budgetExceeded struct{ msg string }
type unwindExceeded struct {
	fn string
	n  int
}
type pathEnd struct{ why string }

// Decision is one resolved choice point on a path.
type Decision struct {
	Kind  byte     `json:"k"` // 'b' branch, 'c' choose, 'v' concretised value
	Val   uint64   `json:"v"`
	Fresh bool     `json:"f,omitempty"` // kind 'v' only: pick any value not in Excl
	Excl  []uint64 `json:"x,omitempty"`
	Tag   string   `json:"t,omitempty"`
}

type InputRec struct {
	Name string
	Kind string // "int","uint","bool","float","floatint","choose"
	Bits int
	term *smt.Term
}

type obsRec struct {
	Name string
	val  value
}

// Violation is a counterexample: an assertion id with a model of the inputs.
type Violation struct {
	Harness   string            `json:"harness"`
	AssertID  string            `json:"assert_id"`
	Kind      string            `json:"kind"` // "assert","panic","unwind"
	Message   string            `json:"message,omitempty"`
	Model     map[string]string `json:"model"`
	Decisions []string          `json:"decisions,omitempty"`
	Havoc     int               `json:"havoc_decisions,omitempty"`
	Class     string            `json:"class,omitempty"`
}

// PathSample is a finished path with a model and the engine's predicted observations.
type PathSample struct {
	Harness   string            `json:"harness"`
	Model     map[string]string `json:"model"`
	Observes  map[string]string `json:"observes"`
	Decisions []string          `json:"decisions"`
	Outcome   string            `json:"outcome"`
}

type AssertStat struct {
	Reached    int `json:"reached"`
	Discharged int `json:"discharged"`
	Violated   int `json:"violated"`
	Unknown    int `json:"unknown"`
	Trivial    int `json:"trivially_true"`
}

type pathExec struct {
	ctx    *smt.Ctx
	solver *smt.Solver
	h      *HarnessRun

	prefix []Decision
	trace  []Decision
	alts   [][]Decision

	model      map[string]uint64 // a model of the current path condition (nil = none cached)
	pcUnknown  bool              // some feasibility check on this path answered unknown
	steps      int
	maxSteps   int
	unwind     int
	depth      int
	inInit     int
	inputs     []InputRec
	nameCount  map[string]int
	observes   []obsRec
	violations []Violation
	asserts    map[string]*AssertStat
	assumes    int
	funcs      map[*ssa.Function]struct{}
	faults     int
	crashed    bool

	havocKernels    map[string]int
	havocDecisions  int
	fpOps           int
	opaqueNonlinear bool
	goroutinesRun   int
	panicTrace      string
	noPanicID       string // when set, target panics / unwinding overflow are violations of this id
	skipFns         map[string]bool // verifrt.SkipCalls
	decided         map[*smt.Term]bool // branch conditions already asserted on this path
	branches        int
	freshN          int
	timeVars        []*smt.Term
	strTab          map[string]value
	floatStrings    map[string][2]*smt.Term
	clock           int
	uuidN           int
	initFailed      map[string]string
	spec            int
	covers          map[string]int
	faultCount      *smt.Term
	nFaultVars      int
	maxFaults       int
	fusions, merges int
}

func (px *pathExec) freshVar(name string, s smt.Sort) *smt.Term {
	px.freshN++
	return px.ctx.Var(fmt.Sprintf("%s!%d", name, px.freshN), s)
}

func (px *pathExec) inPrefix() bool { return len(px.trace) < len(px.prefix) }

func (px *pathExec) assertPC(t *smt.Term) {
	px.solver.Assert(t)
}

// check decides pc ∧ t; on sat the cached model is refreshed.
func (px *pathExec) check(t *smt.Term, final bool) smt.Result {
	want := px.ctx.Vars
	r, vals := px.solver.Check(t, want, final)
	if r == smt.Sat {
		m := make(map[string]uint64, len(want))
		for i, v := range want {
			m[v.Name] = vals[i]
		}
		px.model = m
	}
	return r
}

// evalUnderModel evaluates a boolean term under the cached model, if any.
func (px *pathExec) evalUnderModel(t *smt.Term) (val bool, ok bool) {
	if px.model == nil {
		return false, false
	}
	defer func() {
		if r := recover(); r != nil {
			ok = false
		}
	}()
	return smt.Eval(t, px.model, map[*smt.Term]uint64{}) == 1, true
}

// decide resolves a symbolic branch condition, forking the exploration when both sides are feasible.
func (fr *frame) decide(cond *smt.Term, tag string) bool {
	px := fr.i.px
	if cond.IsConst() {
		return cond.U == 1
	}
	if px.spec > 0 {
		panic(specAbort{})
	}
	c := px.ctx
	// a condition already decided on this path (terms are interned, so the same comparison of the
	// same values is the same term) has only one feasible side: no decision, no query
	if v, ok := px.decided[cond]; ok {
		return v
	}
	remember := func(v bool) {
		if px.decided == nil {
			px.decided = map[*smt.Term]bool{}
		}
		px.decided[cond] = v
		px.decided[c.Not(cond)] = !v
	}
	if px.inPrefix() {
		d := px.prefix[len(px.trace)]
		if d.Kind != 'b' {
			panic(engineError{fmt.Sprintf("non-deterministic re-execution: expected decision kind %c at %d, got branch (%s)", d.Kind, len(px.trace), tag)})
		}
		px.trace = append(px.trace, d)
		if d.Val == 1 {
			px.assertPC(cond)
		} else {
			px.assertPC(c.Not(cond))
		}
		px.model = nil
		remember(d.Val == 1)
		return d.Val == 1
	}
	px.branches++
	var side bool
	var other smt.Result
	if v, ok := px.evalUnderModel(cond); ok {
		side = v
		saved := px.model
		if v {
			other = px.check(c.Not(cond), false)
		} else {
			other = px.check(cond, false)
		}
		px.model = saved // we continue on `side`, for which the old model is still valid
	} else {
		r1 := px.check(cond, false)
		switch r1 {
		case smt.Unsat:
			side = false
			other = smt.Unsat // pc is sat by invariant, so ¬cond side is feasible and cond side is not
			px.model = nil
		default:
			if r1 == smt.Unknown {
				px.pcUnknown = true
				px.model = nil
			}
			m1 := px.model
			side = true
			other = px.check(c.Not(cond), false)
			px.model = m1
		}
	}
	if other == smt.Unknown {
		px.pcUnknown = true
	}
	d := Decision{Kind: 'b', Tag: tag}
	if side {
		d.Val = 1
	}
	if other != smt.Unsat {
		alt := make([]Decision, len(px.trace)+1)
		copy(alt, px.trace)
		alt[len(px.trace)] = Decision{Kind: 'b', Val: 1 - d.Val, Tag: tag}
		px.alts = append(px.alts, alt)
	}
	px.trace = append(px.trace, d)
	if side {
		px.assertPC(cond)
	} else {
		px.assertPC(c.Not(cond))
	}
	remember(side)
	return side
}

// choose forks n ways (structure choice; always feasible).
func (fr *frame) choose(n int, tag string) int {
	px := fr.i.px
	if px.spec > 0 {
		panic(specAbort{})
	}
	if n <= 1 {
		return 0
	}
	if px.inPrefix() {
		d := px.prefix[len(px.trace)]
		if d.Kind != 'c' {
			panic(engineError{fmt.Sprintf("non-deterministic re-execution: expected decision kind %c at %d, got choose (%s)", d.Kind, len(px.trace), tag)})
		}
		px.trace = append(px.trace, d)
		return int(d.Val)
	}
	for k := n - 1; k >= 1; k-- {
		alt := make([]Decision, len(px.trace)+1)
		copy(alt, px.trace)
		alt[len(px.trace)] = Decision{Kind: 'c', Val: uint64(k), Tag: tag}
		px.alts = append(px.alts, alt)
	}
	px.trace = append(px.trace, Decision{Kind: 'c', Val: 0, Tag: tag})
	return 0
}

const concretizeCap = 64

// concretize turns a symbolic integer/bool into a concrete one by case-splitting over its feasible
// values (at most concretizeCap; more is an engine error = inconclusive).
func (fr *frame) concretize(v value, tag string) value {
	px := fr.i.px
	var t *smt.Term
	var back func(u uint64) value
	switch s := v.(type) {
	case SymInt:
		if px.spec > 0 {
			panic(specAbort{})
		}
		t = s.T
		back = func(u uint64) value { return mkSymInt(px.ctx.BVConst(u, kindWidth(s.K)), s.K, 0) }
	case SymBool:
		return fr.decide(s.T, tag)
	case SymFloat:
		panic(engineError{"cannot concretise a symbolic float (" + tag + ")"})
	default:
		return v
	}
	c := px.ctx
	w := t.Sort.W
	var excl []uint64
	if px.inPrefix() {
		d := px.prefix[len(px.trace)]
		if d.Kind != 'v' {
			panic(engineError{fmt.Sprintf("non-deterministic re-execution: expected decision kind %c at %d, got concretise (%s)", d.Kind, len(px.trace), tag)})
		}
		if !d.Fresh {
			px.trace = append(px.trace, d)
			px.assertPC(c.Eq(t, c.BVConst(d.Val, w)))
			px.model = nil
			return back(d.Val)
		}
		excl = d.Excl
	}
	// pick a fresh value outside excl
	for _, e := range excl {
		px.assertPC(c.Not(c.Eq(t, c.BVConst(e, w))))
	}
	if len(excl) > 0 {
		px.model = nil
	}
	var val uint64
	if px.model != nil {
		val = smt.Eval(t, px.model, map[*smt.Term]uint64{})
	} else {
		r := px.check(nil, false)
		if r != smt.Sat {
			if r == smt.Unknown {
				panic(engineError{"concretise: solver unknown (" + tag + ")"})
			}
			panic(pathEnd{"concretise: no further value"})
		}
		val = smt.Eval(t, px.model, map[*smt.Term]uint64{})
	}
	// is there another value?
	saved := px.model
	other := px.check(c.Not(c.Eq(t, c.BVConst(val, w))), false)
	px.model = saved
	if other != smt.Unsat {
		if len(excl)+1 >= concretizeCap {
			panic(engineError{fmt.Sprintf("concretise(%s): more than %d feasible values", tag, concretizeCap)})
		}
		alt := make([]Decision, len(px.trace)+1)
		copy(alt, px.trace)
		ex := append(append([]uint64{}, excl...), val)
		alt[len(px.trace)] = Decision{Kind: 'v', Fresh: true, Excl: ex, Tag: tag}
		px.alts = append(px.alts, alt)
	}
	px.trace = append(px.trace, Decision{Kind: 'v', Val: val, Excl: excl, Tag: tag})
	px.assertPC(c.Eq(t, c.BVConst(val, w)))
	return back(val)
}

// concretizeDeep concretises every symbolic scalar inside an aggregate (map keys).
func (fr *frame) concretizeDeep(v value, tag string) value {
	switch v := v.(type) {
	case SymInt, SymBool:
		return fr.concretize(v, tag)
	case SymString:
		bs := make([]value, len(v.B))
		for i := range v.B {
			bs[i] = fr.concretize(v.B[i], tag)
		}
		return mkString(bs)
	case structure:
		a := make(structure, len(v))
		for i := range v {
			a[i] = fr.concretizeDeep(v[i], tag)
		}
		return a
	case array:
		a := make(array, len(v))
		for i := range v {
			a[i] = fr.concretizeDeep(v[i], tag)
		}
		return a
	case iface:
		if v.t == nil {
			return v
		}
		return iface{t: v.t, v: fr.concretizeDeep(v.v, tag)}
	}
	return v
}

// ---- harness-facing operations

func (px *pathExec) uniqueName(name string) string {
	n := px.nameCount[name]
	px.nameCount[name] = n + 1
	if n == 0 {
		return name
	}
	return fmt.Sprintf("%s#%d", name, n)
}

func (fr *frame) assume(cond value) {
	px := fr.i.px
	px.assumes++
	switch c := cond.(type) {
	case bool:
		if !c {
			panic(pathEnd{"assume(false)"})
		}
	case SymBool:
		if !px.inPrefix() {
			if v, ok := px.evalUnderModel(c.T); !(ok && v) {
				r := px.check(c.T, false)
				if r == smt.Unsat {
					panic(pathEnd{"assumption infeasible"})
				}
				if r == smt.Unknown {
					px.pcUnknown = true
					px.model = nil
				}
			}
		} else {
			px.model = nil
		}
		px.assertPC(c.T)
	}
}

func (px *pathExec) stat(id string) *AssertStat {
	s := px.asserts[id]
	if s == nil {
		s = &AssertStat{}
		px.asserts[id] = s
	}
	return s
}

func (px *pathExec) modelStrings() map[string]string {
	out := map[string]string{}
	for _, in := range px.inputs {
		var u uint64
		if in.term != nil && px.model != nil {
			u = smt.Eval(in.term, px.model, map[*smt.Term]uint64{})
		}
		out[in.Name] = formatInput(in, u)
	}
	return out
}

func formatInput(in InputRec, u uint64) string {
	switch in.Kind {
	case "bool":
		if u == 1 {
			return "true"
		}
		return "false"
	case "int", "floatint", "time":
		w := in.Bits
		if w <= 0 || w > 64 {
			w = 64
		}
		return fmt.Sprintf("%d", int64(u<<uint(64-w))>>uint(64-w))
	case "uint", "choose", "byte":
		return fmt.Sprintf("%d", u)
	case "float":
		return fmt.Sprintf("0x%016x", u)
	}
	return fmt.Sprintf("%d", u)
}

func (px *pathExec) decisionStrings() []string {
	var out []string
	for _, d := range px.trace {
		out = append(out, fmt.Sprintf("%c:%s=%d", d.Kind, d.Tag, d.Val))
	}
	return out
}

func (fr *frame) assertProp(cond value, id string) {
	px := fr.i.px
	st := px.stat(id)
	if px.inPrefix() {
		// already checked by the run that discovered this prefix
		if c, ok := cond.(SymBool); ok {
			px.assertPC(c.T)
			px.model = nil
		} else if b, ok := cond.(bool); ok && !b {
			panic(pathEnd{"assert(false) in prefix"})
		}
		return
	}
	st.Reached++
	switch c := cond.(type) {
	case bool:
		if c {
			st.Trivial++
			st.Discharged++
			return
		}
		// concrete false on a feasible path: violation with any model of pc
		if px.model == nil {
			if r := px.check(nil, true); r != smt.Sat {
				st.Unknown++
				return
			}
		}
		st.Violated++
		px.violations = append(px.violations, Violation{Harness: px.h.Name, AssertID: id, Kind: "assert", Model: px.modelStrings(), Decisions: px.decisionStrings(), Havoc: px.havocDecisions})
		panic(pathEnd{"assert(false)"})
	case SymBool:
		neg := px.ctx.Not(c.T)
		saved := px.model
		r := px.check(neg, true)
		switch r {
		case smt.Unsat:
			st.Discharged++
			px.model = saved
		case smt.Sat:
			st.Violated++
			px.violations = append(px.violations, Violation{Harness: px.h.Name, AssertID: id, Kind: "assert", Model: px.modelStrings(), Decisions: px.decisionStrings(), Havoc: px.havocDecisions})
			px.model = nil
		default:
			st.Unknown++
			px.model = saved
		}
		// continue under the assertion
		if v, ok := px.evalUnderModel(c.T); !(ok && v) {
			px.model = nil
			if rr := px.check(c.T, false); rr == smt.Unsat {
				panic(pathEnd{"assertion always false here"})
			}
		}
		px.assertPC(c.T)
	default:
		panic(engineError{fmt.Sprintf("Assert on %T", cond)})
	}
}

// ---- harness runs

// HarnessRun accumulates the exploration of one harness function.
type HarnessRun struct {
	Name string
	Fn   *ssa.Function

	mu            sync.Mutex
	queue         [][]Decision
	inflight      int
	cond          *sync.Cond
	Paths         int
	Completed     int
	Pruned        int
	Panicked      int
	Branches      int
	Steps         int64
	Assumes       int
	Violations    []Violation
	Errors        []string
	Asserts       map[string]*AssertStat
	Funcs         map[string]struct{}
	Samples       []PathSample
	sampleCap     int
	HavocKernels  map[string]int
	HavocDecs     int
	FPOps         int
	Merges        int
	Covers        map[string]int
	UnknownPaths  int
	MaxPaths      int
	Truncated     bool
	Outcomes      map[string]int
	InputsSeen    map[string]string
	deadline      time.Time
	TimedOut      bool
	GoroutinesRun int
}

// Env is the shared, read-only environment of all path executions.
type Env struct {
	Prog       *ssa.Program
	StubPkgs   []string
	RtPkgPath  string // import path of the harness runtime package (zz_verifrt)
	MaxSteps   int
	Unwind     int
	TimeoutMs  int
	Workers    int
	MaxPaths   int
	SampleCap  int
	DumpDir    string
	Deadline   time.Duration
	built      map[*ssa.Package]bool
	buildMu    sync.Mutex
	intrinsics map[string]externalFn
	Verbose    bool
	Tier       string
	ModPath    string
	NoMerge    bool
	Progress   bool
	Sem        chan struct{} // global cap on concurrently executing paths (across harnesses)
}

func (e *Env) isStubPkg(path string) bool {
	for _, p := range e.StubPkgs {
		if path == p || strings.HasPrefix(path, p+"/") {
			return true
		}
	}
	return false
}

func (e *Env) buildPkg(p *ssa.Package) {
	e.buildMu.Lock()
	defer e.buildMu.Unlock()
	if !e.built[p] {
		p.Build()
		e.built[p] = true
	}
}

// SolverStats aggregates solver usage across workers.
type SolverStats struct {
	Queries  int
	Unknowns int
	Seconds  float64
	ByEngine map[string]int
	Errors   []string
}

// Explore runs harness fn to exhaustion (or MaxPaths / Deadline) on e.Workers workers.
func (e *Env) Explore(name string, fn *ssa.Function) (*HarnessRun, *SolverStats) {
	h := &HarnessRun{Name: name, Fn: fn, Asserts: map[string]*AssertStat{}, Funcs: map[string]struct{}{},
		HavocKernels: map[string]int{}, Covers: map[string]int{}, sampleCap: e.SampleCap, MaxPaths: e.MaxPaths, Outcomes: map[string]int{}, InputsSeen: map[string]string{}}
	h.cond = sync.NewCond(&h.mu)
	h.queue = [][]Decision{nil}
	if e.Deadline > 0 {
		h.deadline = time.Now().Add(e.Deadline)
	}
	stats := &SolverStats{ByEngine: map[string]int{}}
	stopTick := make(chan struct{})
	if e.Progress {
		go func() {
			t0 := time.Now()
			tk := time.NewTicker(15 * time.Second)
			defer tk.Stop()
			for {
				select {
				case <-stopTick:
					return
				case <-tk.C:
					h.mu.Lock()
					fmt.Printf("  [progress %s %.0fs] paths=%d queue=%d inflight=%d completed=%d pruned=%d errors=%d violations=%d\n", name, time.Since(t0).Seconds(), h.Paths, len(h.queue), h.inflight, h.Completed, h.Pruned, len(h.Errors), len(h.Violations))
					h.mu.Unlock()
				}
			}
		}()
	}
	defer close(stopTick)
	var wg sync.WaitGroup
	var smu sync.Mutex
	for w := 0; w < e.Workers; w++ {
		wg.Add(1)
		go func() {
			defer wg.Done()
			solver, err := smt.NewSolver(e.TimeoutMs)
			if err != nil {
				h.mu.Lock()
				h.Errors = append(h.Errors, "cannot start solver: "+err.Error())
				h.mu.Unlock()
				return
			}
			solver.DumpDir = e.DumpDir
			defer func() {
				smu.Lock()
				stats.Queries += solver.Queries
				stats.Unknowns += solver.Unknowns
				stats.Seconds += solver.SolverTime.Seconds()
				for k, v := range solver.ByEngine {
					stats.ByEngine[k] += v
				}
				stats.Errors = append(stats.Errors, solver.Errors...)
				smu.Unlock()
				solver.Close()
			}()
			for {
				h.mu.Lock()
				for len(h.queue) == 0 && h.inflight > 0 {
					h.cond.Wait()
				}
				if len(h.queue) == 0 {
					h.mu.Unlock()
					h.cond.Broadcast()
					return
				}
				if h.MaxPaths > 0 && h.Paths >= h.MaxPaths {
					h.Truncated = true
					h.queue = nil
					h.mu.Unlock()
					h.cond.Broadcast()
					return
				}
				if !h.deadline.IsZero() && time.Now().After(h.deadline) {
					h.TimedOut = true
					h.Truncated = true
					h.queue = nil
					h.mu.Unlock()
					h.cond.Broadcast()
					return
				}
				// DFS: take the most recently added prefix
				prefix := h.queue[len(h.queue)-1]
				h.queue = h.queue[:len(h.queue)-1]
				h.inflight++
				h.Paths++
				h.mu.Unlock()

				if e.Sem != nil {
					e.Sem <- struct{}{}
				}
				px := e.runPath(h, solver, prefix)
				if e.Sem != nil {
					<-e.Sem
				}

				h.mu.Lock()
				h.inflight--
				h.queue = append(h.queue, px.alts...)
				h.merge(px)
				h.mu.Unlock()
				h.cond.Broadcast()
			}
		}()
	}
	wg.Wait()
	return h, stats
}

func (h *HarnessRun) merge(px *pathExec) {
	h.Branches += px.branches
	h.Steps += int64(px.steps)
	h.Assumes += px.assumes
	h.Violations = append(h.Violations, px.violations...)
	for id, s := range px.asserts {
		t := h.Asserts[id]
		if t == nil {
			t = &AssertStat{}
			h.Asserts[id] = t
		}
		t.Reached += s.Reached
		t.Discharged += s.Discharged
		t.Violated += s.Violated
		t.Unknown += s.Unknown
		t.Trivial += s.Trivial
	}
	for f := range px.funcs {
		h.Funcs[f.String()] = struct{}{}
	}
	for k, v := range px.havocKernels {
		h.HavocKernels[k] += v
	}
	h.HavocDecs += px.havocDecisions
	h.FPOps += px.fpOps
	h.Merges += px.merges + px.fusions
	for id, n := range px.covers {
		h.Covers[id] += n
	}
	h.GoroutinesRun += px.goroutinesRun
	if px.pcUnknown {
		h.UnknownPaths++
	}
	for _, in := range px.inputs {
		h.InputsSeen[in.Name] = in.Kind
	}
}

type pathOutcome struct {
	kind string
	msg  string
}

// runPath executes the harness once along prefix.
func (e *Env) runPath(h *HarnessRun, solver *smt.Solver, prefix []Decision) (px *pathExec) {
	px = &pathExec{ctx: smt.NewCtx(), solver: solver, h: h, prefix: prefix, maxSteps: e.MaxSteps, unwind: e.Unwind,
		nameCount: map[string]int{}, asserts: map[string]*AssertStat{}, funcs: map[*ssa.Function]struct{}{},
		havocKernels: map[string]int{}, strTab: map[string]value{}, floatStrings: map[string][2]*smt.Term{}, initFailed: map[string]string{}, covers: map[string]int{}, maxFaults: 1}
	i := &interpreter{prog: e.Prog, globals: map[*ssa.Global]*value{}, initState: map[*ssa.Package]int{}, px: px, env: e}
	if rt := e.Prog.ImportedPackage("runtime"); rt != nil {
		i.runtimeErrorString = rt.Type("errorString").Object().Type()
	}
	solver.PathBegin()
	out := pathOutcome{kind: "completed"}
	func() {
		defer func() {
			r := recover()
			if r == nil {
				return
			}
			switch r := r.(type) {
			case pathEnd:
				out = pathOutcome{"pruned", r.why}
			case targetPanic:
				out = pathOutcome{"panic", toString(r.v) + " @ " + px.panicTrace}
				if ifc, ok := r.v.(iface); ok && ifc.t != nil {
					out.msg = describePanicValue(i, ifc) + " @ " + px.panicTrace
				}
			case runtimePanic:
				out = pathOutcome{"panic", r.Error() + " @ " + px.panicTrace}
			case unwindExceeded:
				out = pathOutcome{"unwind", fmt.Sprintf("loop bound %d exceeded in %s", r.n, r.fn)}
			case budgetExceeded:
				out = pathOutcome{"unwind", r.msg}
			case engineError:
				out = pathOutcome{"error", r.msg}
			case domainExit:
				out = pathOutcome{"error", "domain-exit: " + r.msg}
			default:
				out = pathOutcome{"error", fmt.Sprintf("engine bug: %v", r)}
			}
		}()
		callSSA(i, nil, token.NoPos, h.Fn, nil, nil)
	}()

	// A path that ends inside its prefix did not reach its fork point: engine non-determinism.
	if out.kind != "error" && len(px.trace) < len(px.prefix) {
		out = pathOutcome{"error", fmt.Sprintf("re-execution diverged: prefix %d decisions, path took %d (%s: %s)", len(px.prefix), len(px.trace), out.kind, out.msg)}
	}

	if (out.kind == "panic" || out.kind == "unwind") && px.noPanicID != "" {
		st := px.stat(px.noPanicID)
		st.Reached++
		if px.model == nil {
			px.check(nil, true)
		}
		if px.model != nil {
			st.Violated++
			px.violations = append(px.violations, Violation{Harness: h.Name, AssertID: px.noPanicID, Kind: out.kind, Message: out.msg, Model: px.modelStrings(), Decisions: px.decisionStrings(), Havoc: px.havocDecisions})
		} else {
			st.Unknown++
		}
	} else if out.kind == "panic" || out.kind == "unwind" {
		out = pathOutcome{"error", "unexpected " + out.kind + " (harness did not declare NoPanic): " + out.msg}
	}

	// sample: model + predicted observations, for native cross-validation
	var sample *PathSample
	if out.kind == "completed" || out.kind == "panic" || out.kind == "unwind" {
		if out.kind == "completed" && px.noPanicID != "" {
			px.stat(px.noPanicID).Reached++
			px.stat(px.noPanicID).Discharged++
		}
		h.mu.Lock()
		want := len(h.Samples) < h.sampleCap
		h.mu.Unlock()
		if want && out.kind == "completed" {
			if px.model == nil {
				px.check(nil, false)
			}
			if px.model != nil {
				s := PathSample{Harness: h.Name, Model: px.modelStrings(), Observes: map[string]string{}, Decisions: px.decisionStrings(), Outcome: out.kind}
				memo := map[*smt.Term]uint64{}
				okAll := true
				for _, o := range px.observes {
					str, ok := renderObserved(px, o.val, memo)
					if !ok {
						okAll = false
						break
					}
					s.Observes[o.Name] = str
				}
				if okAll {
					sample = &s
				}
			}
		}
	}
	solver.PathEnd()

	h.mu.Lock()
	h.Outcomes[out.kind]++
	switch out.kind {
	case "completed":
		h.Completed++
	case "pruned":
		h.Pruned++
	case "panic", "unwind":
		h.Panicked++
	case "error":
		if len(h.Errors) < 20 {
			h.Errors = append(h.Errors, out.msg+" [decisions: "+strings.Join(px.decisionStrings(), " ")+"]")
		} else if len(h.Errors) == 20 {
			h.Errors = append(h.Errors, "... more errors suppressed")
		}
	}
	if sample != nil && len(h.Samples) < h.sampleCap {
		h.Samples = append(h.Samples, *sample)
	}
	h.mu.Unlock()
	if e.Verbose {
		fmt.Printf("  path %-9s steps=%d decisions=%d %s\n", out.kind, px.steps, len(px.trace), out.msg)
	}
	return px
}

func describePanicValue(i *interpreter, v iface) string {
	switch x := v.v.(type) {
	case string:
		return x
	}
	return v.t.String() + ": " + toString(v.v)
}

// renderObserved evaluates an observed value under the cached model into a canonical string
// that the native runtime produces identically.
func renderObserved(px *pathExec, v value, memo map[*smt.Term]uint64) (string, bool) {
	switch v := v.(type) {
	case bool:
		return fmt.Sprintf("%v", v), true
	case string:
		return fmt.Sprintf("%q", v), true
	case SymString:
		buf := make([]byte, len(v.B))
		for i, b := range v.B {
			switch b := b.(type) {
			case uint8:
				buf[i] = b
			case SymInt:
				buf[i] = byte(smt.Eval(b.T, px.model, memo))
			}
		}
		return fmt.Sprintf("%q", string(buf)), true
	case float64:
		return fmtFloat(v), true
	case float32:
		return fmtFloat(float64(v)), true
	case SymBool:
		return fmt.Sprintf("%v", smt.Eval(v.T, px.model, memo) == 1), true
	case SymInt:
		u := smt.Eval(v.T, px.model, memo)
		if kindSigned(v.K) {
			w := kindWidth(v.K)
			return fmt.Sprintf("%d", int64(u<<uint(64-w))>>uint(64-w)), true
		}
		return fmt.Sprintf("%d", u), true
	case SymFloat:
		switch v.Mode {
		case FExactInt:
			return fmtFloat(float64(int64(smt.Eval(v.T, px.model, memo)))), true
		case FFP:
			return fmtFloat(math.Float64frombits(smt.Eval(v.T, px.model, memo))), true
		case FRat:
			n := int64(smt.Eval(v.T, px.model, memo))
			d := int64(smt.Eval(v.Den, px.model, memo))
			return fmtFloat(float64(n) / float64(d)), true
		}
		return "", false
	case iface:
		if v.t == nil {
			return "<nil>", true
		}
		return renderObserved(px, v.v, memo)
	case []value:
		var parts []string
		for _, e := range v {
			s, ok := renderObserved(px, e, memo)
			if !ok {
				return "", false
			}
			parts = append(parts, s)
		}
		return "[" + strings.Join(parts, " ") + "]", true
	case structure:
		var parts []string
		for _, e := range v {
			s, ok := renderObserved(px, e, memo)
			if !ok {
				return "", false
			}
			parts = append(parts, s)
		}
		return "{" + strings.Join(parts, " ") + "}", true
	case *value:
		if v == nil {
			return "<nilptr>", true
		}
		return "<ptr>", true
	}
	if u, k, ok := intBits(v); ok {
		if kindSigned(k) {
			return fmt.Sprintf("%d", int64(u)), true
		}
		return fmt.Sprintf("%d", u&maskW(kindWidth(k))), true
	}
	return "", false
}

func fmtFloat(f float64) string {
	if f != f {
		return "NaN"
	}
	return fmt.Sprintf("0x%016x", math.Float64bits(f))
}

// SortedFuncs returns the executed function names.
func (h *HarnessRun) SortedFuncs() []string {
	var out []string
	for f := range h.Funcs {
		out = append(out, f)
	}
	sort.Strings(out)
	return out
}

var _ = types.Typ
