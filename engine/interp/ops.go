// Copyright 2013 The Go Authors. All rights reserved.
// Use of this source code is governed by a BSD-style
// license that can be found in the LICENSE file.
//
// Derived from golang.org/x/tools/go/ssa/interp (v0.50.0).

package interp

import (
	"fmt"
	"go/constant"
	"go/token"
	"go/types"
	"math"
	"strings"
	"unsafe"

	"golang.org/x/tools/go/ssa"
	"verif/engine/smt"
)

// If the target program panics, the interpreter panics with this type.
type targetPanic struct {
	v value
}

func (p targetPanic) String() string { return toString(p.v) }

// runtimePanic is a Go run-time error raised by the *target* program (nil dereference, index out
// of range, integer divide by zero, failed type assertion ...).
type runtimePanic struct{ msg string }

func (p runtimePanic) Error() string { return "runtime error: " + p.msg }

// engineError aborts the current path as a machinery error (unsupported construct).
type engineError struct{ msg string }

// domainExit aborts the current path because a number left the encodable domain (DESIGN §3).
type domainExit struct{ msg string }

// constValue returns the value of the constant with the
// dynamic type tag appropriate for c.Type().
func constValue(c *ssa.Const) value {
	if c.Value == nil {
		return zero(c.Type()) // typed zero
	}
	if t, ok := c.Type().Underlying().(*types.Basic); ok {
		switch t.Kind() {
		case types.Bool, types.UntypedBool:
			return constant.BoolVal(c.Value)
		case types.Int, types.UntypedInt:
			return int(c.Int64())
		case types.Int8:
			return int8(c.Int64())
		case types.Int16:
			return int16(c.Int64())
		case types.Int32, types.UntypedRune:
			return int32(c.Int64())
		case types.Int64:
			return c.Int64()
		case types.Uint:
			return uint(c.Uint64())
		case types.Uint8:
			return uint8(c.Uint64())
		case types.Uint16:
			return uint16(c.Uint64())
		case types.Uint32:
			return uint32(c.Uint64())
		case types.Uint64:
			return c.Uint64()
		case types.Uintptr:
			return uintptr(c.Uint64())
		case types.Float32:
			return float32(c.Float64())
		case types.Float64, types.UntypedFloat:
			return c.Float64()
		case types.Complex64:
			return complex64(c.Complex128())
		case types.Complex128, types.UntypedComplex:
			return c.Complex128()
		case types.String, types.UntypedString:
			if c.Value.Kind() == constant.String {
				return constant.StringVal(c.Value)
			}
			return string(rune(c.Int64()))
		}
	}
	panic(engineError{fmt.Sprintf("constValue: %s", c)})
}

// ---- integer helpers

func kindWidth(k types.BasicKind) int {
	switch k {
	case types.Int8, types.Uint8:
		return 8
	case types.Int16, types.Uint16:
		return 16
	case types.Int32, types.Uint32:
		return 32
	}
	return 64
}

func kindSigned(k types.BasicKind) bool {
	switch k {
	case types.Int, types.Int8, types.Int16, types.Int32, types.Int64:
		return true
	}
	return false
}

// intBits returns (raw two's-complement bits sign/zero-extended to 64, kind, ok) for concrete ints.
func intBits(x value) (uint64, types.BasicKind, bool) {
	switch x := x.(type) {
	case int:
		return uint64(x), types.Int, true
	case int8:
		return uint64(x), types.Int8, true
	case int16:
		return uint64(x), types.Int16, true
	case int32:
		return uint64(x), types.Int32, true
	case int64:
		return uint64(x), types.Int64, true
	case uint:
		return uint64(x), types.Uint, true
	case uint8:
		return uint64(x), types.Uint8, true
	case uint16:
		return uint64(x), types.Uint16, true
	case uint32:
		return uint64(x), types.Uint32, true
	case uint64:
		return x, types.Uint64, true
	case uintptr:
		return uint64(x), types.Uintptr, true
	}
	return 0, 0, false
}

func fromBits(k types.BasicKind, u uint64) value {
	switch k {
	case types.Int:
		return int(u)
	case types.Int8:
		return int8(u)
	case types.Int16:
		return int16(u)
	case types.Int32:
		return int32(u)
	case types.Int64:
		return int64(u)
	case types.Uint:
		return uint(u)
	case types.Uint8:
		return uint8(u)
	case types.Uint16:
		return uint16(u)
	case types.Uint32:
		return uint32(u)
	case types.Uint64:
		return u
	case types.Uintptr:
		return uintptr(u)
	}
	panic(engineError{fmt.Sprintf("fromBits: kind %v", k)})
}

func isConcreteInt(x value) bool { _, _, ok := intBits(x); return ok }

// asInt64 converts x, which must be a concrete integer, to an int64.
func asInt64(x value) int64 {
	if u, _, ok := intBits(x); ok {
		return int64(u)
	}
	if _, ok := x.(SymInt); ok {
		panic(engineError{"symbolic integer where a concrete one is required (length/index/count)"})
	}
	panic(engineError{fmt.Sprintf("cannot convert %T to int64", x)})
}

// zero returns a new "zero" value of the specified type.
func zero(t types.Type) value {
	switch t := t.(type) {
	case *types.Basic:
		if t.Kind() == types.UntypedNil {
			panic(engineError{"untyped nil has no zero value"})
		}
		if t.Info()&types.IsUntyped != 0 {
			t = types.Default(t).(*types.Basic)
		}
		switch t.Kind() {
		case types.Bool:
			return false
		case types.Int:
			return int(0)
		case types.Int8:
			return int8(0)
		case types.Int16:
			return int16(0)
		case types.Int32:
			return int32(0)
		case types.Int64:
			return int64(0)
		case types.Uint:
			return uint(0)
		case types.Uint8:
			return uint8(0)
		case types.Uint16:
			return uint16(0)
		case types.Uint32:
			return uint32(0)
		case types.Uint64:
			return uint64(0)
		case types.Uintptr:
			return uintptr(0)
		case types.Float32:
			return float32(0)
		case types.Float64:
			return float64(0)
		case types.Complex64:
			return complex64(0)
		case types.Complex128:
			return complex128(0)
		case types.String:
			return ""
		case types.UnsafePointer:
			return unsafe.Pointer(nil)
		default:
			panic(engineError{fmt.Sprint("zero for unexpected type:", t)})
		}
	case *types.Pointer:
		return (*value)(nil)
	case *types.Array:
		a := make(array, t.Len())
		for i := range a {
			a[i] = zero(t.Elem())
		}
		return a
	case *types.Named:
		return zero(t.Underlying())
	case *types.Alias:
		return zero(types.Unalias(t))
	case *types.Interface:
		return iface{}
	case *types.Slice:
		return []value(nil)
	case *types.Struct:
		s := make(structure, t.NumFields())
		for i := range s {
			s[i] = zero(t.Field(i).Type())
		}
		return s
	case *types.Tuple:
		if t.Len() == 1 {
			return zero(t.At(0).Type())
		}
		s := make(tuple, t.Len())
		for i := range s {
			s[i] = zero(t.At(i).Type())
		}
		return s
	case *types.Chan:
		return (*chanV)(nil)
	case *types.Map:
		return (*omap)(nil)
	case *types.Signature:
		return (*ssa.Function)(nil)
	}
	panic(engineError{fmt.Sprint("zero: unexpected ", t)})
}

// slice returns x[lo:hi:max].  Any of lo, hi and max may be nil.
func slice(fr *frame, x, lo, hi, max value) value {
	var Len, Cap int
	switch x := x.(type) {
	case string:
		Len = len(x)
		Cap = Len
	case SymString:
		Len = len(x.B)
		Cap = Len
	case []value:
		Len = len(x)
		Cap = cap(x)
	case *value: // *array
		if x == nil {
			panic(runtimePanic{"invalid memory address or nil pointer dereference"})
		}
		a := (*x).(array)
		Len = len(a)
		Cap = cap(a)
	}
	l := int64(0)
	if lo != nil {
		l = asInt64(fr.concretize(lo, "slice.lo"))
	}
	h := int64(Len)
	if hi != nil {
		h = asInt64(fr.concretize(hi, "slice.hi"))
	}
	m := int64(Cap)
	if max != nil {
		m = asInt64(fr.concretize(max, "slice.max"))
	}
	if l < 0 || h < l || m < h || m > int64(Cap) {
		panic(runtimePanic{fmt.Sprintf("slice bounds out of range [%d:%d:%d] with capacity %d", l, h, m, Cap)})
	}
	switch x := x.(type) {
	case string:
		return x[l:h]
	case SymString:
		return mkString(x.B[l:h])
	case []value:
		return x[l:h:m]
	case *value: // *array
		a := (*x).(array)
		return []value(a)[l:h:m]
	}
	panic(engineError{fmt.Sprintf("slice: unexpected X type: %T", x)})
}

// lookup returns x[idx] where x is a map.
func lookup(fr *frame, instr *ssa.Lookup, x, idx value) value {
	switch x := x.(type) {
	case *omap:
		v, ok := x.lookupF(fr, idx)
		if !ok {
			v = zero(instr.X.Type().Underlying().(*types.Map).Elem())
		} else {
			v = copyVal(v)
		}
		if instr.CommaOk {
			v = tuple{v, ok}
		}
		return v
	}
	panic(engineError{fmt.Sprintf("unexpected x type in Lookup: %T", x)})
}

// ---- symbolic helpers

func (fr *frame) ctx() *smt.Ctx { return fr.i.px.ctx }

// intTerm lifts a concrete or symbolic integer to a term of its own width.
func (fr *frame) intTerm(x value) (*smt.Term, types.BasicKind, int) {
	switch x := x.(type) {
	case SymInt:
		return x.T, x.K, x.Bits
	}
	u, k, ok := intBits(x)
	if !ok {
		panic(engineError{fmt.Sprintf("intTerm: %T", x)})
	}
	w := kindWidth(k)
	b := w
	if kindSigned(k) {
		b = smt.BitLen(int64(u))
	} else if u < 1<<62 {
		b = smt.BitLen(int64(u))
	}
	return fr.ctx().BVConst(u, w), k, b
}

func mkSymInt(t *smt.Term, k types.BasicKind, bits int) value {
	if t.IsConst() {
		u := t.U
		if kindSigned(k) {
			w := kindWidth(k)
			u = uint64(int64(u<<uint(64-w)) >> uint(64-w))
		}
		return fromBits(k, u)
	}
	w := kindWidth(k)
	if bits > w || bits <= 0 {
		bits = w
	}
	return SymInt{T: t, K: k, Bits: bits}
}

func mkSymBool(t *smt.Term) value {
	if t.IsConst() {
		return t.U == 1
	}
	return SymBool{t}
}

func (fr *frame) boolTerm(x value) *smt.Term {
	switch x := x.(type) {
	case bool:
		return fr.ctx().BoolConst(x)
	case SymBool:
		return x.T
	}
	panic(engineError{fmt.Sprintf("boolTerm: %T", x)})
}

func isSymScalar(x value) bool {
	switch x.(type) {
	case SymInt, SymBool, SymFloat:
		return true
	}
	return false
}

// binop implements all arithmetic and logical binary operators for
// numeric datatypes and strings.
func binop(fr *frame, op token.Token, t types.Type, x, y value) value {
	switch op {
	case token.EQL:
		return eqnil(fr, t, x, y)
	case token.NEQ:
		return condNot(fr, eqnil(fr, t, x, y))
	}
	_, xss := x.(SymString)
	_, yss := y.(SymString)
	if xss || yss {
		if op == token.ADD {
			xb, _ := strBytes(x)
			yb, _ := strBytes(y)
			return mkString(append(append([]value{}, xb...), yb...))
		}
		panic(engineError{"ordering comparison on symbolic string"})
	}
	if _, ok := x.(SymFloat); ok {
		return fr.floatBinop(op, x, y)
	}
	if _, ok := y.(SymFloat); ok {
		return fr.floatBinop(op, x, y)
	}
	_, xs := x.(SymInt)
	_, ys := y.(SymInt)
	if xs || ys {
		return fr.symIntBinop(op, x, y)
	}
	if xu, k, ok := intBits(x); ok {
		return concreteIntBinop(op, k, xu, y)
	}
	switch x := x.(type) {
	case float64:
		y := y.(float64)
		switch op {
		case token.ADD:
			return x + y
		case token.SUB:
			return x - y
		case token.MUL:
			return x * y
		case token.QUO:
			return x / y
		case token.LSS:
			return x < y
		case token.LEQ:
			return x <= y
		case token.GTR:
			return x > y
		case token.GEQ:
			return x >= y
		}
	case float32:
		y := y.(float32)
		switch op {
		case token.ADD:
			return x + y
		case token.SUB:
			return x - y
		case token.MUL:
			return x * y
		case token.QUO:
			return x / y
		case token.LSS:
			return x < y
		case token.LEQ:
			return x <= y
		case token.GTR:
			return x > y
		case token.GEQ:
			return x >= y
		}
	case string:
		y := y.(string)
		switch op {
		case token.ADD:
			return x + y
		case token.LSS:
			return x < y
		case token.LEQ:
			return x <= y
		case token.GTR:
			return x > y
		case token.GEQ:
			return x >= y
		}
	case complex128:
		y := y.(complex128)
		switch op {
		case token.ADD:
			return x + y
		case token.SUB:
			return x - y
		case token.MUL:
			return x * y
		case token.QUO:
			return x / y
		}
	case bool, SymBool:
		// &, | on bools do not exist in SSA for bool (&&/|| are control flow); fallthrough
	}
	panic(engineError{fmt.Sprintf("invalid binary op: %T %s %T", x, op, y)})
}

func concreteIntBinop(op token.Token, k types.BasicKind, xu uint64, y value) value {
	w := kindWidth(k)
	sg := kindSigned(k)
	switch op {
	case token.SHL, token.SHR:
		yu, yk, ok := intBits(y)
		if !ok {
			panic(engineError{fmt.Sprintf("shift count %T", y)})
		}
		if kindSigned(yk) && int64(yu) < 0 {
			panic(runtimePanic{"negative shift amount"})
		}
		if op == token.SHL {
			if yu >= uint64(w) {
				return fromBits(k, 0)
			}
			return fromBits(k, xu<<yu)
		}
		if sg {
			if yu >= 64 {
				yu = 63
			}
			return fromBits(k, uint64(int64(xu)>>yu))
		}
		if yu >= uint64(w) {
			return fromBits(k, 0)
		}
		return fromBits(k, (xu&maskW(w))>>yu)
	}
	yu, yk, ok := intBits(y)
	if !ok || yk != k {
		panic(engineError{fmt.Sprintf("int binop %s: operand kinds %v vs %T", op, k, y)})
	}
	switch op {
	case token.ADD:
		return fromBits(k, xu+yu)
	case token.SUB:
		return fromBits(k, xu-yu)
	case token.MUL:
		return fromBits(k, xu*yu)
	case token.QUO, token.REM:
		if yu&maskW(w) == 0 {
			panic(runtimePanic{"integer divide by zero"})
		}
		if sg {
			sx, sy := int64(xu), int64(yu)
			if sy == -1 {
				if op == token.QUO {
					return fromBits(k, uint64(-sx))
				}
				return fromBits(k, 0)
			}
			if op == token.QUO {
				return fromBits(k, uint64(sx/sy))
			}
			return fromBits(k, uint64(sx%sy))
		}
		xm, ym := xu&maskW(w), yu&maskW(w)
		if op == token.QUO {
			return fromBits(k, xm/ym)
		}
		return fromBits(k, xm%ym)
	case token.AND:
		return fromBits(k, xu&yu)
	case token.OR:
		return fromBits(k, xu|yu)
	case token.XOR:
		return fromBits(k, xu^yu)
	case token.AND_NOT:
		return fromBits(k, xu&^yu)
	case token.LSS, token.LEQ, token.GTR, token.GEQ:
		var lt, eq bool
		if sg {
			lt, eq = int64(xu) < int64(yu), xu == yu
		} else {
			lt, eq = xu&maskW(w) < yu&maskW(w), xu&maskW(w) == yu&maskW(w)
		}
		switch op {
		case token.LSS:
			return lt
		case token.LEQ:
			return lt || eq
		case token.GTR:
			return !lt && !eq
		default:
			return !lt
		}
	}
	panic(engineError{fmt.Sprintf("invalid int binary op %s", op)})
}

func maskW(w int) uint64 {
	if w >= 64 {
		return ^uint64(0)
	}
	return 1<<uint(w) - 1
}

func imax(a, b int) int {
	if a > b {
		return a
	}
	return b
}

func (fr *frame) symIntBinop(op token.Token, x, y value) value {
	c := fr.ctx()
	xt, k, xb := fr.intTerm(x)
	w := kindWidth(k)
	sg := kindSigned(k)
	if op == token.SHL || op == token.SHR {
		yt, yk, _ := fr.intTerm(y)
		if kindSigned(yk) && !yt.IsConst() {
			if fr.decide(c.SLt(yt, c.BVConst(0, yt.Sort.W)), "shift<0") {
				panic(runtimePanic{"negative shift amount"})
			}
		} else if kindSigned(yk) && yt.IsConst() && int64(yt.U<<uint(64-yt.Sort.W)) < 0 {
			panic(runtimePanic{"negative shift amount"})
		}
		y64 := c.Resize(yt, 64, false)
		big := c.ULe(c.BVConst(uint64(w), 64), y64)
		yy := c.Resize(y64, w, false)
		var r *smt.Term
		switch {
		case op == token.SHL:
			r = c.Ite(big, c.BVConst(0, w), c.Shl(xt, yy))
		case sg:
			r = c.Ite(big, c.AShr(xt, c.BVConst(uint64(w-1), w)), c.AShr(xt, yy))
		default:
			r = c.Ite(big, c.BVConst(0, w), c.LShr(xt, yy))
		}
		return mkSymInt(r, k, w)
	}
	yt, yk, yb := fr.intTerm(y)
	if yk != k {
		panic(engineError{fmt.Sprintf("sym int binop %s: kinds %v vs %v", op, k, yk)})
	}
	switch op {
	case token.ADD:
		return mkSymInt(c.Add(xt, yt), k, imax(xb, yb)+1)
	case token.SUB:
		b := imax(xb, yb) + 1
		if !sg {
			b = w
		}
		return mkSymInt(c.Sub(xt, yt), k, b)
	case token.MUL:
		return mkSymInt(c.Mul(xt, yt), k, xb+yb)
	case token.QUO, token.REM:
		if fr.decide(c.Eq(yt, c.BVConst(0, w)), "div0") {
			panic(runtimePanic{"integer divide by zero"})
		}
		// (k*c) / d and (k*c) % d with constant d dividing constant c, when k*c cannot overflow
		if yt.IsConst() && xt.Op == "bvmul" && len(xt.Args) == 2 && xb < w-1 {
			d := int64(yt.U << uint(64-w) >> uint(64-w))
			for i := 0; i < 2; i++ {
				cst, oth := xt.Args[i], xt.Args[1-i]
				if !cst.IsConst() || d <= 0 {
					continue
				}
				cv := int64(cst.U << uint(64-w) >> uint(64-w))
				if cv > 0 && cv%d == 0 {
					if op == token.REM {
						return fromBits(k, 0)
					}
					return mkSymInt(c.Mul(oth, c.BVConst(uint64(cv/d), w)), k, xb)
				}
			}
		}
		switch {
		case op == token.QUO && sg:
			return mkSymInt(c.SDiv(xt, yt), k, xb+1)
		case op == token.QUO:
			return mkSymInt(c.UDiv(xt, yt), k, xb)
		case sg:
			return mkSymInt(c.SRem(xt, yt), k, imax(xb, yb))
		default:
			return mkSymInt(c.URem(xt, yt), k, imax(xb, yb))
		}
	case token.AND:
		return mkSymInt(c.BAnd(xt, yt), k, w)
	case token.OR:
		return mkSymInt(c.BOr(xt, yt), k, w)
	case token.XOR:
		return mkSymInt(c.BXor(xt, yt), k, w)
	case token.AND_NOT:
		return mkSymInt(c.BAnd(xt, c.BNot(yt)), k, w)
	case token.LSS:
		if sg {
			return mkSymBool(c.SLt(xt, yt))
		}
		return mkSymBool(c.ULt(xt, yt))
	case token.LEQ:
		if sg {
			return mkSymBool(c.SLe(xt, yt))
		}
		return mkSymBool(c.ULe(xt, yt))
	case token.GTR:
		if sg {
			return mkSymBool(c.SLt(yt, xt))
		}
		return mkSymBool(c.ULt(yt, xt))
	case token.GEQ:
		if sg {
			return mkSymBool(c.SLe(yt, xt))
		}
		return mkSymBool(c.ULe(yt, xt))
	}
	panic(engineError{fmt.Sprintf("invalid symbolic int op %s", op)})
}

// ---- conditions (bool | SymBool)

func condNot(fr *frame, x value) value {
	switch x := x.(type) {
	case bool:
		return !x
	case SymBool:
		return mkSymBool(fr.ctx().Not(x.T))
	}
	panic(engineError{fmt.Sprintf("condNot %T", x)})
}

func condAnd(fr *frame, x, y value) value {
	if xb, ok := x.(bool); ok {
		if !xb {
			return false
		}
		return y
	}
	if yb, ok := y.(bool); ok {
		if !yb {
			return false
		}
		return x
	}
	return mkSymBool(fr.ctx().And(x.(SymBool).T, y.(SymBool).T))
}

// eqnil returns the comparison x == y using the equivalence relation
// appropriate for type t.
func eqnil(fr *frame, t types.Type, x, y value) value {
	switch t.Underlying().(type) {
	case *types.Map, *types.Signature, *types.Slice:
		return isNilRef(x) == isNilRef(y) && (isNilRef(x) || sameRef(x, y))
	}
	return equals(fr, t, x, y)
}

func sameRef(x, y value) bool {
	// only reachable via reflect.DeepEqual-style intrinsics; identity not needed for nil checks
	return false
}

func isNilRef(x value) bool {
	switch x := x.(type) {
	case *omap:
		return x == nil
	case *ssa.Function:
		return x == nil
	case *closure:
		return x == nil
	case []value:
		return x == nil
	case *ssa.Builtin:
		return x == nil
	}
	panic(engineError{fmt.Sprintf("isNilRef: illegal dynamic type: %T", x)})
}

// equals returns x == y (bool or SymBool) according to Go's equivalence relation for type t.
func equals(fr *frame, t types.Type, x, y value) value {
	_, xss := x.(SymString)
	_, yss := y.(SymString)
	if xss || yss {
		xb, ok1 := strBytes(x)
		yb, ok2 := strBytes(y)
		if !ok1 || !ok2 {
			panic(engineError{fmt.Sprintf("string equality %T vs %T", x, y)})
		}
		if len(xb) != len(yb) {
			return false
		}
		var r value = true
		for i := range xb {
			r = condAnd(fr, r, equals(fr, types.Typ[types.Uint8], xb[i], yb[i]))
			if r == false {
				return false
			}
		}
		return r
	}
	if isSymScalar(x) || isSymScalar(y) {
		c := fr.ctx()
		switch xx := x.(type) {
		case SymFloat:
			return fr.floatBinop(token.EQL, x, y)
		case float64:
			return fr.floatBinop(token.EQL, x, y)
		case SymBool, bool:
			_ = xx
			return mkSymBool(c.Eq(fr.boolTerm(x), fr.boolTerm(y)))
		}
		xt, _, _ := fr.intTerm(x)
		yt, _, _ := fr.intTerm(y)
		return mkSymBool(c.Eq(xt, yt))
	}
	switch x := x.(type) {
	case bool:
		return x == y.(bool)
	case int:
		return x == y.(int)
	case int8:
		return x == y.(int8)
	case int16:
		return x == y.(int16)
	case int32:
		return x == y.(int32)
	case int64:
		return x == y.(int64)
	case uint:
		return x == y.(uint)
	case uint8:
		return x == y.(uint8)
	case uint16:
		return x == y.(uint16)
	case uint32:
		return x == y.(uint32)
	case uint64:
		return x == y.(uint64)
	case uintptr:
		return x == y.(uintptr)
	case float32:
		return x == y.(float32)
	case float64:
		return x == y.(float64)
	case complex64:
		return x == y.(complex64)
	case complex128:
		return x == y.(complex128)
	case string:
		return x == y.(string)
	case *value:
		return x == y.(*value)
	case *chanV:
		return x == y.(*chanV)
	case unsafe.Pointer:
		return x == y.(unsafe.Pointer)
	case structure:
		yy := y.(structure)
		tStruct := t.Underlying().(*types.Struct)
		var r value = true
		for i, n := 0, tStruct.NumFields(); i < n; i++ {
			if f := tStruct.Field(i); f.Name() != "_" {
				r = condAnd(fr, r, equals(fr, f.Type(), x[i], yy[i]))
				if r == false {
					return false
				}
			}
		}
		return r
	case array:
		yy := y.(array)
		tElt := t.Underlying().(*types.Array).Elem()
		var r value = true
		for i, xi := range x {
			r = condAnd(fr, r, equals(fr, tElt, xi, yy[i]))
			if r == false {
				return false
			}
		}
		return r
	case iface:
		yy := y.(iface)
		if !sameType(x.t, yy.t) {
			return false
		}
		if x.t == nil {
			return true
		}
		if !types.Comparable(x.t) {
			panic(runtimePanic{"comparing uncomparable type " + x.t.String()})
		}
		return equals(fr, x.t, x.v, yy.v)
	}
	panic(runtimePanic{fmt.Sprintf("comparing uncomparable type %s", t)})
}

func unop(fr *frame, instr *ssa.UnOp, x value) value {
	switch instr.Op {
	case token.ARROW: // receive
		ch := x.(*chanV)
		if ch == nil {
			panic(engineError{"receive from nil channel (would block forever)"})
		}
		var v value
		ok := false
		if len(ch.buf) > 0 {
			v, ch.buf = ch.buf[0], ch.buf[1:]
			ok = true
		} else if !ch.closed {
			panic(engineError{"receive from empty channel would block (no scheduler in engine)"})
		}
		if !ok {
			v = zero(instr.X.Type().Underlying().(*types.Chan).Elem())
		}
		if instr.CommaOk {
			v = tuple{v, ok}
		}
		return v
	case token.SUB:
		switch x := x.(type) {
		case SymInt:
			return mkSymInt(fr.ctx().Neg(x.T), x.K, x.Bits)
		case SymFloat:
			return fr.floatNeg(x)
		case float32:
			return -x
		case float64:
			return -x
		case complex64:
			return -x
		case complex128:
			return -x
		}
		if u, k, ok := intBits(x); ok {
			return fromBits(k, -u)
		}
	case token.MUL:
		p := x.(*value)
		if p == nil {
			panic(runtimePanic{"invalid memory address or nil pointer dereference"})
		}
		return load(mustDeref(instr.X.Type()), p)
	case token.NOT:
		return condNot(fr, x)
	case token.XOR:
		if s, ok := x.(SymInt); ok {
			return mkSymInt(fr.ctx().BNot(s.T), s.K, kindWidth(s.K))
		}
		if u, k, ok := intBits(x); ok {
			return fromBits(k, ^u)
		}
	}
	panic(engineError{fmt.Sprintf("invalid unary op %s %T", instr.Op, x)})
}

func mustDeref(t types.Type) types.Type {
	if p, ok := t.Underlying().(*types.Pointer); ok {
		return p.Elem()
	}
	if p, ok := types.Unalias(t).(*types.Pointer); ok {
		return p.Elem()
	}
	panic(engineError{fmt.Sprintf("mustDeref: not a pointer: %s", t)})
}

// typeAssert checks whether dynamic type of itf is instr.AssertedType.
func typeAssert(instr *ssa.TypeAssert, itf iface) value {
	var v value
	err := ""
	if itf.t == nil {
		err = fmt.Sprintf("interface conversion: interface is nil, not %s", instr.AssertedType)
	} else if idst, ok := instr.AssertedType.Underlying().(*types.Interface); ok {
		v = itf
		err = checkInterface(idst, itf)
	} else if types.Identical(itf.t, instr.AssertedType) {
		v = itf.v // extract value
	} else {
		err = fmt.Sprintf("interface conversion: interface is %s, not %s", itf.t, instr.AssertedType)
	}
	if err != "" {
		if !instr.CommaOk {
			panic(runtimePanic{err})
		}
		return tuple{zero(instr.AssertedType), false}
	}
	if instr.CommaOk {
		return tuple{copyVal(v), true}
	}
	return copyVal(v)
}

// callBuiltin interprets a call to builtin fn with arguments args,
// returning its result.
func callBuiltin(caller *frame, fn *ssa.Builtin, args []value) value {
	switch fn.Name() {
	case "append":
		if len(args) == 1 {
			return args[0]
		}
		if s, ok := args[1].(string); ok {
			arg0 := args[0].([]value)
			for i := 0; i < len(s); i++ {
				arg0 = append(arg0, s[i])
			}
			return arg0
		}
		if s, ok := args[1].(SymString); ok {
			return append(args[0].([]value), s.B...)
		}
		src := args[1].([]value)
		dst := args[0].([]value)
		for _, e := range src {
			dst = append(dst, copyVal(e))
		}
		return dst

	case "copy": // copy([]T, []T) int or copy([]byte, string) int
		src := args[1]
		if s, ok := src.(string); ok {
			dst := args[0].([]value)
			n := 0
			for i := 0; i < len(s) && i < len(dst); i++ {
				dst[i] = s[i]
				n++
			}
			return n
		}
		s := src.([]value)
		d := args[0].([]value)
		n := len(s)
		if len(d) < n {
			n = len(d)
		}
		tmp := make([]value, n)
		for i := 0; i < n; i++ {
			tmp[i] = copyVal(s[i])
		}
		copy(d, tmp)
		return n

	case "close": // close(chan T)
		ch := args[0].(*chanV)
		if ch == nil {
			panic(runtimePanic{"close of nil channel"})
		}
		if ch.closed {
			panic(runtimePanic{"close of closed channel"})
		}
		ch.closed = true
		return nil

	case "delete": // delete(map[K]value, K)
		args[0].(*omap).deleteF(caller, args[1])
		return nil

	case "clear":
		switch x := args[0].(type) {
		case *omap:
			x.clear()
		case []value:
			et := fn.Type().(*types.Signature).Params().At(0).Type().Underlying().(*types.Slice).Elem()
			for i := range x {
				x[i] = zero(et)
			}
		}
		return nil

	case "print", "println": // print(any, ...)
		return nil

	case "len":
		switch x := args[0].(type) {
		case string:
			return len(x)
		case SymString:
			return len(x.B)
		case array:
			return len(x)
		case *value:
			return len((*x).(array))
		case []value:
			return len(x)
		case *omap:
			return x.len()
		case *chanV:
			if x == nil {
				return 0
			}
			return len(x.buf)
		default:
			panic(engineError{fmt.Sprintf("len: illegal operand: %T", x)})
		}

	case "cap":
		switch x := args[0].(type) {
		case array:
			return cap(x)
		case *value:
			return cap((*x).(array))
		case []value:
			return cap(x)
		case *chanV:
			if x == nil {
				return 0
			}
			return x.cap
		default:
			panic(engineError{fmt.Sprintf("cap: illegal operand: %T", x)})
		}

	case "min":
		return foldLeft(caller, token.LSS, args)
	case "max":
		return foldLeft(caller, token.GTR, args)

	case "real":
		switch c := args[0].(type) {
		case complex64:
			return real(c)
		case complex128:
			return real(c)
		}
	case "imag":
		switch c := args[0].(type) {
		case complex64:
			return imag(c)
		case complex128:
			return imag(c)
		}
	case "complex":
		switch f := args[0].(type) {
		case float32:
			return complex(f, args[1].(float32))
		case float64:
			return complex(f, args[1].(float64))
		}

	case "panic":
		panic(targetPanic{args[0]})

	case "recover":
		return doRecover(caller)

	case "ssa:wrapnilchk":
		recv := args[0]
		if recv.(*value) == nil {
			panic(runtimePanic{fmt.Sprintf("value method (%s).%s called using nil pointer", args[1], args[2])})
		}
		return recv

	case "ssa:deferstack":
		return &caller.defers
	}

	panic(engineError{"unknown built-in: " + fn.Name()})
}

// foldLeft implements the min/max builtins: op is LSS for min, GTR for max.
func foldLeft(fr *frame, op token.Token, args []value) value {
	x := args[0]
	for _, y := range args[1:] {
		if isFloatVal(x) || isFloatVal(y) {
			x = fr.floatMinMax(op == token.LSS, x, y, true)
			continue
		}
		c := binop(fr, op, nil, y, x)
		switch c := c.(type) {
		case bool:
			if c {
				x = y
			}
		case SymBool:
			xt, k, xb := fr.intTerm(x)
			yt, _, yb := fr.intTerm(y)
			x = mkSymInt(fr.ctx().Ite(c.T, yt, xt), k, imax(xb, yb))
		}
	}
	return x
}

func isFloatVal(x value) bool {
	switch x.(type) {
	case float64, float32, SymFloat:
		return true
	}
	return false
}

func rangeIter(x value) iter {
	switch x := x.(type) {
	case *omap:
		return &omapIter{m: x}
	case string:
		return &stringIter{Reader: strings.NewReader(x)}
	}
	panic(engineError{fmt.Sprintf("cannot range over %T", x)})
}

// conv converts the value x of type t_src to type t_dst and returns the result.
func conv(fr *frame, t_dst, t_src types.Type, x value) value {
	ut_src := t_src.Underlying()
	ut_dst := t_dst.Underlying()

	switch ut_src := ut_src.(type) {
	case *types.Pointer:
		if b, ok := ut_dst.(*types.Basic); ok && b.Kind() == types.UnsafePointer {
			return unsafe.Pointer(x.(*value))
		}
		if _, ok := ut_dst.(*types.Pointer); ok {
			return x
		}

	case *types.Slice:
		// []byte or []rune -> string
		if _, ok := ut_dst.(*types.Slice); ok {
			return x
		}
		switch ut_src.Elem().Underlying().(*types.Basic).Kind() {
		case types.Byte:
			return mkString(x.([]value))
		case types.Rune:
			xs := x.([]value)
			r := make([]rune, 0, len(xs))
			for i := range xs {
				r = append(r, xs[i].(rune))
			}
			return string(r)
		}

	case *types.Basic:
		dstB, dstIsBasic := ut_dst.(*types.Basic)
		// symbolic sources
		switch sx := x.(type) {
		case SymInt:
			if !dstIsBasic {
				break
			}
			dk := dstB.Kind()
			if dstB.Info()&types.IsInteger != 0 {
				dk = normKind(dk)
				c := fr.ctx()
				r := c.Resize(sx.T, kindWidth(dk), kindSigned(sx.K))
				b := sx.Bits
				return mkSymInt(r, dk, b)
			}
			if dk == types.Float64 {
				return fr.intToFloat(sx)
			}
			if dk == types.String {
				return conv(fr, t_dst, t_src, fr.concretize(sx, "int->string"))
			}
			panic(engineError{fmt.Sprintf("unsupported symbolic conversion int -> %s", t_dst)})
		case SymFloat:
			if !dstIsBasic {
				break
			}
			dk := dstB.Kind()
			if dk == types.Float64 {
				return sx
			}
			if dstB.Info()&types.IsInteger != 0 {
				return fr.floatToInt(sx, normKind(dk))
			}
			panic(engineError{fmt.Sprintf("unsupported symbolic conversion float64 -> %s", t_dst)})
		case SymBool:
			return sx
		}

		if ss, ok := x.(SymString); ok {
			switch ut_dst := ut_dst.(type) {
			case *types.Slice:
				if ut_dst.Elem().Underlying().(*types.Basic).Kind() == types.Byte {
					return append([]value{}, ss.B...)
				}
			case *types.Basic:
				if ut_dst.Kind() == types.String {
					return ss
				}
			}
			panic(engineError{"unsupported conversion of symbolic string"})
		}
		// string -> []rune, []byte or string?
		if s, ok := x.(string); ok {
			switch ut_dst := ut_dst.(type) {
			case *types.Slice:
				var res []value
				switch ut_dst.Elem().Underlying().(*types.Basic).Kind() {
				case types.Rune:
					for _, r := range []rune(s) {
						res = append(res, r)
					}
					if res == nil {
						res = []value{}
					}
					return res
				case types.Byte:
					for _, b := range []byte(s) {
						res = append(res, b)
					}
					if res == nil {
						res = []value{}
					}
					return res
				}
			case *types.Basic:
				if ut_dst.Kind() == types.String {
					return s
				}
			}
			break
		}
		if _, ok := x.(bool); ok {
			return x
		}

		if ut_src.Kind() == types.UnsafePointer {
			if p, ok := x.(unsafe.Pointer); ok {
				if _, ok := ut_dst.(*types.Pointer); ok {
					return (*value)(p)
				}
				return x
			}
		}

		if !dstIsBasic {
			break
		}
		dk := normKind(dstB.Kind())

		if u, k, ok := intBits(x); ok {
			if dstB.Kind() == types.String {
				return string(rune(int64(u)))
			}
			switch dk {
			case types.Float32:
				if kindSigned(k) {
					return float32(int64(u))
				}
				return float32(u & maskW(kindWidth(k)))
			case types.Float64:
				if kindSigned(k) {
					return float64(int64(u))
				}
				return float64(u & maskW(kindWidth(k)))
			case types.UnsafePointer:
				return unsafe.Pointer(nil)
			}
			if !kindSigned(k) {
				u &= maskW(kindWidth(k))
			}
			return fromBits(dk, u)
		}
		var f float64
		isF := false
		switch xx := x.(type) {
		case float64:
			f, isF = xx, true
		case float32:
			f, isF = float64(xx), true
		}
		if isF {
			switch dk {
			case types.Float32:
				return float32(f)
			case types.Float64:
				return f
			case types.Int:
				return int(f)
			case types.Int8:
				return int8(f)
			case types.Int16:
				return int16(f)
			case types.Int32:
				return int32(f)
			case types.Int64:
				return int64(f)
			case types.Uint:
				return uint(f)
			case types.Uint8:
				return uint8(f)
			case types.Uint16:
				return uint16(f)
			case types.Uint32:
				return uint32(f)
			case types.Uint64:
				return uint64(f)
			case types.Uintptr:
				return uintptr(f)
			}
		}
		switch xx := x.(type) {
		case complex128:
			if dk == types.Complex64 {
				return complex64(xx)
			}
			return xx
		case complex64:
			if dk == types.Complex128 {
				return complex128(xx)
			}
			return xx
		}
	}

	panic(engineError{fmt.Sprintf("unsupported conversion: %s  -> %s, dynamic type %T", t_src, t_dst, x)})
}

func normKind(k types.BasicKind) types.BasicKind {
	switch k {
	case types.UntypedInt:
		return types.Int
	case types.UntypedRune:
		return types.Int32
	case types.UntypedFloat:
		return types.Float64
	}
	return k
}

// sliceToArrayPointer converts the value x of type slice to type t_dst
// a pointer to array and returns the result.
func sliceToArrayPointer(t_dst, t_src types.Type, x value) value {
	if _, ok := t_src.Underlying().(*types.Slice); ok {
		if ptr, ok := t_dst.Underlying().(*types.Pointer); ok {
			if arr, ok := ptr.Elem().Underlying().(*types.Array); ok {
				x := x.([]value)
				if arr.Len() > int64(len(x)) {
					panic(runtimePanic{"array length is greater than slice length"})
				}
				if x == nil {
					return zero(t_dst)
				}
				v := value(array(x[:arr.Len()]))
				return &v
			}
		}
	}
	panic(engineError{fmt.Sprintf("unsupported conversion: %s  -> %s, dynamic type %T", t_src, t_dst, x)})
}

// checkInterface checks that the method set of x implements the interface itype.
func checkInterface(itype *types.Interface, x iface) string {
	if meth, _ := types.MissingMethod(x.t, itype, true); meth != nil {
		return fmt.Sprintf("interface conversion: %v is not %v: missing method %s",
			x.t, itype, meth.Name())
	}
	return "" // ok
}

var _ = math.Inf
