// Copyright 2013 The Go Authors. All rights reserved.
// Use of this source code is governed by a BSD-style
// license that can be found in the LICENSE file.
//
// Derived from golang.org/x/tools/go/ssa/interp (v0.50.0); extended with symbolic scalar
// values, deterministic insertion-ordered maps and simple channels.

package interp

import (
	"bytes"
	"fmt"
	"go/types"
	"io"
	"strings"
	"unsafe"

	"golang.org/x/tools/go/ssa"
	"verif/engine/smt"
)

type value any

type tuple []value

type array []value

type iface struct {
	t types.Type // never an "untyped" type
	v value
}

type structure []value

// SymInt is a symbolic integer of basic kind K, denoted by a bit-vector term of K's width.
// Bits is a static bound on magnitude: |v| < 2^Bits (Bits == width means "unknown").
type SymInt struct {
	T    *smt.Term
	K    types.BasicKind
	Bits int
}

// SymBool is a symbolic boolean.
type SymBool struct{ T *smt.Term }

type floatMode uint8

const (
	// FExactInt: the double is exactly the integer denoted by signed 64-bit term T, |v| < 2^Bits <= 2^52.
	FExactInt floatMode = iota
	// FFP: T is a genuine FloatingPoint(11,53) term.
	FFP
	// FRat: the double is fl(T/Den) with Den > 0, both signed 64-bit integer terms, |T|,|Den| < 2^Bits <= 2^20.
	FRat
	// FOpaque: havoc'ed result; T is a fresh FP variable used only for identity.
	FOpaque
	// FAffine: the double is within 2^-18 of the real number T + K, where T is a signed 64-bit
	// integer term (|T| < 2^Bits <= 2^40) and K a concrete constant (|K| < 2^20), obtained by at
	// most 8 additions/subtractions. Comparisons are decided exactly when the two sides cannot tie
	// (fractional distance > 2^-12), otherwise the path is a domain exit (DESIGN.md D3).
	FAffine
)

// SymFloat is a symbolic float64 in one of the representations of DESIGN.md section 3.
type SymFloat struct {
	Mode floatMode
	T    *smt.Term
	Den  *smt.Term
	Bits int
	K    float64 // FAffine only
	Ops  int     // FAffine only
}

// SymString is a string of concrete length whose bytes may be symbolic (uint8 or SymInt of kind Uint8).
type SymString struct{ B []value }

// mkString normalises a byte sequence: all-concrete sequences become ordinary strings.
func mkString(bs []value) value {
	buf := make([]byte, len(bs))
	for i, b := range bs {
		c, ok := b.(uint8)
		if !ok {
			cp := make([]value, len(bs))
			copy(cp, bs)
			return SymString{cp}
		}
		buf[i] = c
	}
	return string(buf)
}

func strBytes(v value) ([]value, bool) {
	switch s := v.(type) {
	case string:
		out := make([]value, len(s))
		for i := 0; i < len(s); i++ {
			out[i] = s[i]
		}
		return out, true
	case SymString:
		return s.B, true
	}
	return nil, false
}

// For map, array, *array, slice, string or channel.
type iter interface {
	// next returns a Tuple (key, value, ok).
	next() tuple
}

type closure struct {
	Fn  *ssa.Function
	Env []value
}

type bad struct{}

// chanV is a simple FIFO channel (goroutines are run to completion, so no blocking semantics).
type chanV struct {
	buf    []value
	cap    int
	closed bool
	timer  bool // created by time.After: becomes ready only when nothing else is (time passes)
}

// ---------- insertion-ordered map

type omapEntry struct {
	key     value
	val     value
	deleted bool
}

type omap struct {
	keyType types.Type
	index   map[string]int
	entries []omapEntry
	n       int
	nSym    int // live entries whose key contains a symbolic scalar
}

func makeMap(kt types.Type, reserve int64) value {
	return &omap{keyType: kt, index: make(map[string]int)}
}

func (m *omap) len() int {
	if m == nil {
		return 0
	}
	return m.n
}

// find locates key k. Concrete keys in a map without symbolic keys use the hash index; otherwise
// the entries are compared one by one and a symbolic equality forks the exploration (case split
// over the existing keys + "none of them").
func (m *omap) find(fr *frame, k value) int {
	if m == nil {
		return -1
	}
	if m.nSym == 0 && !hasSym(k) {
		if i, ok := m.index[keyString(k)]; ok {
			return i
		}
		return -1
	}
	if fr == nil {
		panic(engineError{"symbolic map key without an execution frame"})
	}
	for i := range m.entries {
		e := &m.entries[i]
		if e.deleted {
			continue
		}
		switch c := equals(fr, m.keyType, k, e.key).(type) {
		case bool:
			if c {
				return i
			}
		case SymBool:
			if fr.decide(c.T, "map.key==") {
				return i
			}
		}
	}
	return -1
}

func (m *omap) lookupF(fr *frame, k value) (value, bool) {
	if i := m.find(fr, k); i >= 0 {
		return m.entries[i].val, true
	}
	return nil, false
}

func (m *omap) lookup(k value) (value, bool) { return m.lookupF(nil, k) }

func (m *omap) insertF(fr *frame, k, v value) {
	if i := m.find(fr, k); i >= 0 {
		m.entries[i].val = v
		return
	}
	if hasSym(k) {
		m.nSym++
	} else {
		m.index[keyString(k)] = len(m.entries)
	}
	m.entries = append(m.entries, omapEntry{key: k, val: v})
	m.n++
}

func (m *omap) insert(k, v value) { m.insertF(nil, k, v) }

func (m *omap) deleteF(fr *frame, k value) {
	if m == nil {
		return
	}
	if i := m.find(fr, k); i >= 0 {
		e := &m.entries[i]
		if hasSym(e.key) {
			m.nSym--
		} else {
			delete(m.index, keyString(e.key))
		}
		e.deleted = true
		e.val = nil
		m.n--
	}
}

func (m *omap) delete(k value) { m.deleteF(nil, k) }

func (m *omap) clear() {
	if m == nil {
		return
	}
	for i := range m.entries {
		m.entries[i].deleted = true
	}
	m.index = make(map[string]int)
	m.n = 0
	m.nSym = 0
}

type omapIter struct {
	m *omap
	i int
}

func (it *omapIter) next() tuple {
	if it.m != nil {
		for it.i < len(it.m.entries) {
			e := &it.m.entries[it.i]
			it.i++
			if !e.deleted {
				return tuple{true, e.key, e.val}
			}
		}
	}
	return tuple{false, nil, nil}
}

// keyString returns a canonical encoding of a concrete map key such that Go-equal keys have equal
// encodings. Symbolic components are rejected (callers concretise first).
func keyString(k value) string {
	var b strings.Builder
	writeKey(&b, k)
	return b.String()
}

func writeKey(b *strings.Builder, k value) {
	switch k := k.(type) {
	case bool:
		fmt.Fprintf(b, "b%v", k)
	case int, int8, int16, int32, int64, uint, uint8, uint16, uint32, uint64, uintptr:
		fmt.Fprintf(b, "i%d", k)
	case float32, float64:
		fmt.Fprintf(b, "f%v", k)
	case complex64, complex128:
		fmt.Fprintf(b, "c%v", k)
	case string:
		fmt.Fprintf(b, "s%d:%s", len(k), k)
	case *value:
		fmt.Fprintf(b, "p%p", k)
	case *chanV:
		fmt.Fprintf(b, "h%p", k)
	case unsafe.Pointer:
		fmt.Fprintf(b, "u%p", k)
	case structure:
		b.WriteString("{")
		for _, f := range k {
			writeKey(b, f)
			b.WriteString(",")
		}
		b.WriteString("}")
	case array:
		b.WriteString("[")
		for _, f := range k {
			writeKey(b, f)
			b.WriteString(",")
		}
		b.WriteString("]")
	case iface:
		if k.t == nil {
			b.WriteString("nil")
		} else {
			fmt.Fprintf(b, "I<%s>", k.t.String())
			writeKey(b, k.v)
		}
	case SymInt, SymBool, SymFloat:
		panic(engineError{"symbolic value used as map key (concretise first)"})
	default:
		panic(engineError{fmt.Sprintf("unhashable map key %T", k)})
	}
}

func hasSym(v value) bool {
	switch v := v.(type) {
	case SymInt, SymBool, SymFloat, SymString:
		return true
	case structure:
		for _, f := range v {
			if hasSym(f) {
				return true
			}
		}
	case array:
		for _, f := range v {
			if hasSym(f) {
				return true
			}
		}
	case iface:
		return v.t != nil && hasSym(v.v)
	}
	return false
}

// nil-tolerant variant of types.Identical.
func sameType(x, y types.Type) bool {
	if x == nil {
		return y == nil
	}
	return y != nil && types.Identical(x, y)
}

// load returns the value of type T in *addr.
func load(T types.Type, addr *value) value {
	switch T := T.Underlying().(type) {
	case *types.Struct:
		v := (*addr).(structure)
		a := make(structure, len(v))
		for i := range a {
			a[i] = load(T.Field(i).Type(), &v[i])
		}
		return a
	case *types.Array:
		v := (*addr).(array)
		a := make(array, len(v))
		for i := range a {
			a[i] = load(T.Elem(), &v[i])
		}
		return a
	default:
		return *addr
	}
}

// store stores value v of type T into *addr.
func store(T types.Type, addr *value, v value) {
	switch T := T.Underlying().(type) {
	case *types.Struct:
		lhs := (*addr).(structure)
		rhs := v.(structure)
		for i := range lhs {
			store(T.Field(i).Type(), &lhs[i], rhs[i])
		}
	case *types.Array:
		lhs := (*addr).(array)
		rhs := v.(array)
		for i := range lhs {
			store(T.Elem(), &lhs[i], rhs[i])
		}
	default:
		*addr = v
	}
}

// copyVal makes an unaliased copy of an aggregate value (structs/arrays are value types).
func copyVal(v value) value {
	switch v := v.(type) {
	case structure:
		a := make(structure, len(v))
		for i := range v {
			a[i] = copyVal(v[i])
		}
		return a
	case array:
		a := make(array, len(v))
		for i := range v {
			a[i] = copyVal(v[i])
		}
		return a
	}
	return v
}

func writeValue(buf *bytes.Buffer, v value) {
	switch v := v.(type) {
	case nil, bool, int, int8, int16, int32, int64, uint, uint8, uint16, uint32, uint64, uintptr, float32, float64, complex64, complex128, string:
		fmt.Fprintf(buf, "%v", v)
	case SymInt:
		fmt.Fprintf(buf, "sym<%s>", v.T.Ref())
	case SymBool:
		fmt.Fprintf(buf, "symb<%s>", v.T.Ref())
	case SymFloat:
		fmt.Fprintf(buf, "symf%d<%s>", v.Mode, v.T.Ref())
	case SymString:
		fmt.Fprintf(buf, "symstr[%d]", len(v.B))
	case *omap:
		buf.WriteString("map[")
		if v != nil {
			sep := ""
			for _, e := range v.entries {
				if e.deleted {
					continue
				}
				buf.WriteString(sep)
				sep = " "
				writeValue(buf, e.key)
				buf.WriteString(":")
				writeValue(buf, e.val)
			}
		}
		buf.WriteString("]")
	case *chanV:
		fmt.Fprintf(buf, "chan %p", v)
	case *value:
		if v == nil {
			buf.WriteString("<nil>")
		} else {
			fmt.Fprintf(buf, "%p", v)
		}
	case iface:
		fmt.Fprintf(buf, "(%s, ", v.t)
		writeValue(buf, v.v)
		buf.WriteString(")")
	case structure:
		buf.WriteString("{")
		for i, e := range v {
			if i > 0 {
				buf.WriteString(" ")
			}
			writeValue(buf, e)
		}
		buf.WriteString("}")
	case array:
		buf.WriteString("[")
		for i, e := range v {
			if i > 0 {
				buf.WriteString(" ")
			}
			writeValue(buf, e)
		}
		buf.WriteString("]")
	case []value:
		buf.WriteString("[")
		for i, e := range v {
			if i > 0 {
				buf.WriteString(" ")
			}
			writeValue(buf, e)
		}
		buf.WriteString("]")
	case *ssa.Function, *ssa.Builtin, *closure:
		fmt.Fprintf(buf, "%p", v)
	case tuple:
		buf.WriteString("(")
		for i, e := range v {
			if i > 0 {
				buf.WriteString(", ")
			}
			writeValue(buf, e)
		}
		buf.WriteString(")")
	default:
		fmt.Fprintf(buf, "<%T>", v)
	}
}

func toString(v value) string {
	var b bytes.Buffer
	writeValue(&b, v)
	return b.String()
}

// ------------------------------------------------------------------------
// Iterators

type stringIter struct {
	*strings.Reader
	i int
}

func (it *stringIter) next() tuple {
	okv := make(tuple, 3)
	ch, n, err := it.ReadRune()
	ok := err != io.EOF
	okv[0] = ok
	if ok {
		okv[1] = it.i
		okv[2] = ch
	}
	it.i += n
	return okv
}
