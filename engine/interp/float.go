package interp

import (
	"fmt"
	"go/token"
	"go/types"
	"math"

	"verif/engine/smt"
)

// Float64 representations (DESIGN.md section 3). Every operation either stays in an exact
// representation (ExactInt, Rat) or is lifted, exactly, to the SMT floating-point theory.

const exactIntMaxBits = 52
const ratMaxBits = 20

// asExactInt views x (concrete or symbolic) as an exact integer: (signed 64-bit term, bits, ok).
func (fr *frame) asExactInt(x value) (*smt.Term, int, bool) {
	switch x := x.(type) {
	case float64:
		if x == math.Trunc(x) && math.Abs(x) < 1<<exactIntMaxBits && !(x == 0 && math.Signbit(x)) {
			return fr.ctx().BVConst(uint64(int64(x)), 64), smt.BitLen(int64(x)), true
		}
	case SymFloat:
		if x.Mode == FExactInt {
			return x.T, x.Bits, true
		}
	}
	return nil, 0, false
}

func mkExactInt(t *smt.Term, bits int) value {
	if t.IsConst() {
		return float64(int64(t.U))
	}
	if bits > exactIntMaxBits {
		panic(engineError{"mkExactInt: bits out of range"})
	}
	if bits < 1 {
		bits = 1
	}
	return SymFloat{Mode: FExactInt, T: t, Bits: bits}
}

func mkFP(t *smt.Term) value {
	if t.IsConst() {
		return t.F
	}
	return SymFloat{Mode: FFP, T: t}
}

// toFP lifts any float value to a FloatingPoint term denoting exactly the same double.
func (fr *frame) toFP(x value) *smt.Term {
	c := fr.ctx()
	switch x := x.(type) {
	case float64:
		return c.FPConst(x)
	case SymFloat:
		switch x.Mode {
		case FExactInt:
			return c.FFromSBV(x.T)
		case FFP, FOpaque:
			return x.T
		case FRat:
			return c.FDiv(c.FFromSBV(x.T), c.FFromSBV(x.Den))
		case FAffine:
			panic(domainExit{"integer+constant float used in an operation outside + - compare"})
		}
	}
	panic(engineError{fmt.Sprintf("toFP: %T", x)})
}

func isOpaque(x value) bool {
	s, ok := x.(SymFloat)
	return ok && s.Mode == FOpaque
}

func (fr *frame) freshOpaque(why string) value {
	px := fr.i.px
	px.havocKernels[why]++
	t := px.freshVar("opaque."+why, smt.FP64)
	return SymFloat{Mode: FOpaque, T: t}
}

func (fr *frame) asRat(x value) (n, d *smt.Term, bits int, ok bool) {
	if s, isS := x.(SymFloat); isS && s.Mode == FRat {
		return s.T, s.Den, s.Bits, true
	}
	if t, b, isI := fr.asExactInt(x); isI && b <= ratMaxBits {
		return t, fr.ctx().BVConst(1, 64), b, true
	}
	return nil, nil, 0, false
}

func (fr *frame) floatBinop(op token.Token, x, y value) value {
	c := fr.ctx()
	if f32, ok := x.(float32); ok {
		x = float64(f32)
	}
	if f32, ok := y.(float32); ok {
		y = float64(f32)
	}
	isCmp := false
	switch op {
	case token.LSS, token.LEQ, token.GTR, token.GEQ, token.EQL, token.NEQ:
		isCmp = true
	}
	if isOpaque(x) || isOpaque(y) {
		if isCmp {
			fr.i.px.havocDecisions++
			b := fr.i.px.freshVar("havoc.cmp", smt.Bool)
			return SymBool{b}
		}
		return fr.freshOpaque("arith-on-opaque")
	}
	// finite symbolic value vs. concrete +-Inf / NaN
	if isCmp {
		if r, ok := cmpWithNonFinite(op, x, y); ok {
			return r
		}
	}
	// integer + small constant domain (no FP theory, no ulp claims)
	if r, ok := fr.affineBinop(op, x, y, isCmp); ok {
		return r
	}
	// exact integer domain
	xt, xb, xi := fr.asExactInt(x)
	yt, yb, yi := fr.asExactInt(y)
	if xi && yi {
		switch op {
		case token.ADD:
			if b := imax(xb, yb) + 1; b <= exactIntMaxBits {
				return mkExactInt(c.Add(xt, yt), b)
			}
		case token.SUB:
			if b := imax(xb, yb) + 1; b <= exactIntMaxBits {
				return mkExactInt(c.Sub(xt, yt), b)
			}
		case token.MUL:
			if b := xb + yb; b <= exactIntMaxBits {
				return mkExactInt(fr.mulNarrow(xt, yt, xb, yb), b)
			}
		case token.QUO:
			if r, ok := fr.exactQuotient(xt, yt, xb); ok {
				return r
			}
			if xb <= ratMaxBits && yb <= ratMaxBits {
				return fr.mkRat(xt, yt, imax(xb, yb))
			}
		case token.LSS:
			return mkSymBool(c.SLt(xt, yt))
		case token.LEQ:
			return mkSymBool(c.SLe(xt, yt))
		case token.GTR:
			return mkSymBool(c.SLt(yt, xt))
		case token.GEQ:
			return mkSymBool(c.SLe(yt, xt))
		case token.EQL:
			return mkSymBool(c.Eq(xt, yt))
		case token.NEQ:
			return mkSymBool(c.Not(c.Eq(xt, yt)))
		}
	}
	// integer vs. non-integer constant: x < c  <=>  x <= floor(c), etc. (exact for integer x)
	if isCmp && (xi != yi) {
		if r, ok := fr.cmpIntWithConst(op, x, y, xt, yt, xi); ok {
			return r
		}
	}
	// exact rationals: comparisons only
	if isCmp {
		xn, xd, xrb, xr := fr.asRat(x)
		yn, yd, yrb, yr := fr.asRat(y)
		if xr && yr {
			l := fr.mulNarrow(xn, yd, xrb, yrb)
			r := fr.mulNarrow(yn, xd, yrb, xrb)
			switch op {
			case token.LSS:
				return mkSymBool(c.SLt(l, r))
			case token.LEQ:
				return mkSymBool(c.SLe(l, r))
			case token.GTR:
				return mkSymBool(c.SLt(r, l))
			case token.GEQ:
				return mkSymBool(c.SLe(r, l))
			case token.EQL:
				return mkSymBool(c.Eq(l, r))
			case token.NEQ:
				return mkSymBool(c.Not(c.Eq(l, r)))
			}
		}
	}
	// Rat * power-of-two constant stays Rat (exact in IEEE, barring overflow which Bits excludes)
	if op == token.MUL {
		if r, ok := fr.ratTimesPow2(x, y); ok {
			return r
		}
		if r, ok := fr.ratTimesPow2(y, x); ok {
			return r
		}
	}
	if fr.i.px.opaqueNonlinear && (op == token.MUL || op == token.QUO) {
		return fr.freshOpaque("nonlinear-float")
	}
	// general case: IEEE semantics in the FP theory
	fr.i.px.fpOps++
	fx, fy := fr.toFP(x), fr.toFP(y)
	switch op {
	case token.ADD:
		return mkFP(c.FAdd(fx, fy))
	case token.SUB:
		return mkFP(c.FSub(fx, fy))
	case token.MUL:
		return mkFP(c.FMul(fx, fy))
	case token.QUO:
		return mkFP(c.FDiv(fx, fy))
	case token.LSS:
		return mkSymBool(c.FLt(fx, fy))
	case token.LEQ:
		return mkSymBool(c.FLe(fx, fy))
	case token.GTR:
		return mkSymBool(c.FLt(fy, fx))
	case token.GEQ:
		return mkSymBool(c.FLe(fy, fx))
	case token.EQL:
		return mkSymBool(c.FEq(fx, fy))
	case token.NEQ:
		return mkSymBool(c.Not(c.FEq(fx, fy)))
	}
	panic(engineError{fmt.Sprintf("invalid float op %s", op)})
}

func (fr *frame) ratTimesPow2(r, k value) (value, bool) {
	s, ok := r.(SymFloat)
	if !ok || s.Mode != FRat {
		return nil, false
	}
	kf, ok := k.(float64)
	if !ok || kf <= 0 || kf > 1024 {
		return nil, false
	}
	fr2, _ := math.Frexp(kf)
	if fr2 != 0.5 || kf < 1 {
		return nil, false
	}
	m := int64(kf)
	b := s.Bits + smt.BitLen(m)
	if b > ratMaxBits+10 {
		return nil, false
	}
	return SymFloat{Mode: FRat, T: fr.ctx().Mul(s.T, fr.ctx().BVConst(uint64(m), 64)), Den: s.Den, Bits: b}, true
}

// mkRat builds fl(n/d); forks on d == 0 and d < 0 so that Den > 0 holds afterwards.
func (fr *frame) mkRat(n, d *smt.Term, bits int) value {
	c := fr.ctx()
	zero := c.BVConst(0, 64)
	if fr.decide(c.Eq(d, zero), "fdiv.den==0") {
		if fr.decide(c.Eq(n, zero), "fdiv.0/0") {
			return math.NaN()
		}
		if fr.decide(c.SLt(n, zero), "fdiv.-x/0") {
			return math.Inf(-1)
		}
		return math.Inf(1)
	}
	if fr.decide(c.SLt(d, zero), "fdiv.den<0") {
		n, d = c.Neg(n), c.Neg(d)
	}
	if n.IsConst() && d.IsConst() {
		return float64(int64(n.U)) / float64(int64(d.U))
	}
	if d.IsConst() && d.U == 1 {
		return mkExactInt(n, bits)
	}
	// (k*c)/d with d | c: exactly the integer k*(c/d) (no rounding: the quotient is an integer < 2^52)
	if d.IsConst() && n.Op == "bvmul" && len(n.Args) == 2 {
		for i := 0; i < 2; i++ {
			cst, oth := n.Args[i], n.Args[1-i]
			if cst.IsConst() && int64(d.U) > 0 && int64(cst.U) > 0 && int64(cst.U)%int64(d.U) == 0 {
				return mkExactInt(c.Mul(oth, c.BVConst(uint64(int64(cst.U)/int64(d.U)), 64)), bits)
			}
		}
	}
	return SymFloat{Mode: FRat, T: n, Den: d, Bits: bits}
}

func (fr *frame) floatNeg(x SymFloat) value {
	c := fr.ctx()
	switch x.Mode {
	case FExactInt:
		return mkExactInt(c.Neg(x.T), x.Bits)
	case FRat:
		return SymFloat{Mode: FRat, T: c.Neg(x.T), Den: x.Den, Bits: x.Bits}
	case FOpaque:
		return fr.freshOpaque("neg-opaque")
	case FAffine:
		return SymFloat{Mode: FAffine, T: c.Neg(x.T), K: -x.K, Bits: x.Bits, Ops: x.Ops}
	}
	return mkFP(c.FNeg(x.T))
}

// floatMinMax implements math.Min/math.Max (builtin=false) and the min/max builtins.
// Both have identical NaN/±0 behaviour except math.Max(+Inf,NaN)=+Inf vs builtin NaN; the ExactInt
// and Rat domains contain neither.
func (fr *frame) floatMinMax(isMin bool, x, y value, builtin bool) value {
	c := fr.ctx()
	if f32, ok := x.(float32); ok {
		x = float64(f32)
	}
	if f32, ok := y.(float32); ok {
		y = float64(f32)
	}
	if xf, ok := x.(float64); ok {
		if yf, ok := y.(float64); ok {
			if builtin {
				if isMin {
					return min(xf, yf)
				}
				return max(xf, yf)
			}
			if isMin {
				return math.Min(xf, yf)
			}
			return math.Max(xf, yf)
		}
	}
	if isOpaque(x) || isOpaque(y) {
		return fr.freshOpaque("minmax-opaque")
	}
	xt, xb, xi := fr.asExactInt(x)
	yt, yb, yi := fr.asExactInt(y)
	if xi && yi {
		cond := c.SLt(xt, yt)
		if !isMin {
			cond = c.SLt(yt, xt)
		}
		return mkExactInt(c.Ite(cond, xt, yt), imax(xb, yb))
	}
	xn, xd, xrb, xr := fr.asRat(x)
	yn, yd, yrb, yr := fr.asRat(y)
	if xr && yr {
		l, r := fr.mulNarrow(xn, yd, xrb, yrb), fr.mulNarrow(yn, xd, yrb, xrb)
		cond := c.SLt(l, r)
		if !isMin {
			cond = c.SLt(r, l)
		}
		n := c.Ite(cond, xn, yn)
		d := c.Ite(cond, xd, yd)
		if d.IsConst() && d.U == 1 {
			return mkExactInt(n, imax(xrb, yrb))
		}
		return SymFloat{Mode: FRat, T: n, Den: d, Bits: imax(xrb, yrb)}
	}
	fr.i.px.fpOps++
	fx, fy := fr.toFP(x), fr.toFP(y)
	nan := c.FPConst(math.NaN())
	anyNaN := c.Or(c.FIsNaN(fx), c.FIsNaN(fy))
	bothZero := c.And(c.FEq(fx, c.FPConst(0)), c.FEq(fy, c.FPConst(0)))
	var pick, zeroPick *smt.Term
	if isMin {
		pick = c.Ite(c.FLt(fx, fy), fx, fy)
		// min(±0,±0): -0 if either is -0
		zeroPick = c.Ite(c.Or(c.FIsNeg(fx), c.FIsNeg(fy)), c.FPConst(math.Copysign(0, -1)), c.FPConst(0))
	} else {
		pick = c.Ite(c.FLt(fy, fx), fx, fy)
		zeroPick = c.Ite(c.And(c.FIsNeg(fx), c.FIsNeg(fy)), c.FPConst(math.Copysign(0, -1)), c.FPConst(0))
	}
	r := c.Ite(anyNaN, nan, c.Ite(bothZero, zeroPick, pick))
	if !builtin {
		// math.Max(x, +Inf) = +Inf even with NaN; math.Min(x, -Inf) = -Inf even with NaN
		if isMin {
			ninf := c.FPConst(math.Inf(-1))
			r = c.Ite(c.Or(c.FEq(fx, ninf), c.FEq(fy, ninf)), ninf, r)
		} else {
			pinf := c.FPConst(math.Inf(1))
			r = c.Ite(c.Or(c.FEq(fx, pinf), c.FEq(fy, pinf)), pinf, r)
		}
	}
	return mkFP(r)
}

func (fr *frame) intToFloat(sx SymInt) value {
	c := fr.ctx()
	if sx.Bits <= exactIntMaxBits {
		return mkExactInt(c.Resize(sx.T, 64, kindSigned(sx.K)), sx.Bits)
	}
	fr.i.px.fpOps++
	if kindSigned(sx.K) {
		return mkFP(c.FFromSBV(sx.T))
	}
	return mkFP(c.FFromUBV(sx.T))
}

func (fr *frame) floatToInt(sx SymFloat, dk types.BasicKind) value {
	c := fr.ctx()
	w := kindWidth(dk)
	switch sx.Mode {
	case FExactInt:
		if kindSigned(dk) && (w == 64 || sx.Bits < w) {
			return mkSymInt(c.Resize(sx.T, w, true), dk, sx.Bits)
		}
		if !kindSigned(dk) {
			// negative -> implementation-specific; require non-negative
			if fr.decide(c.SLt(sx.T, c.BVConst(0, 64)), "f2u.neg") {
				panic(engineError{"conversion of negative float to unsigned integer is implementation-specific"})
			}
			if sx.Bits <= w {
				return mkSymInt(c.Resize(sx.T, w, false), dk, sx.Bits)
			}
		}
		panic(engineError{fmt.Sprintf("float->%v conversion may be out of range (bits=%d)", dk, sx.Bits)})
	case FOpaque:
		fr.i.px.havocKernels["opaque-to-int"]++
		return SymInt{T: fr.i.px.freshVar("opaque.int", smt.BV(w)), K: dk, Bits: w}
	}
	if !kindSigned(dk) || w != 64 {
		panic(engineError{fmt.Sprintf("symbolic float64 -> %v conversion not supported (only int64/int)", dk)})
	}
	fr.i.px.fpOps++
	f := fr.toFP(sx)
	// Go/amd64 CVTTSD2SQ: NaN and out-of-range give 0x8000000000000000.
	lo := c.FPConst(-9223372036854775808.0)
	hi := c.FPConst(9223372036854775808.0)
	inRange := c.And(c.FLe(lo, f), c.FLt(f, hi))
	r := c.Ite(inRange, c.FToSBV(f, 64), c.BVConst(1<<63, 64))
	return mkSymInt(r, dk, 64)
}

// floatRound implements math.Floor/Ceil/Trunc/Round/RoundToEven.
func (fr *frame) floatRound(mode string, x value) value {
	if xf, ok := x.(float64); ok {
		switch mode {
		case "RTN":
			return math.Floor(xf)
		case "RTP":
			return math.Ceil(xf)
		case "RTZ":
			return math.Trunc(xf)
		case "RNA":
			return math.Round(xf)
		default:
			return math.RoundToEven(xf)
		}
	}
	s := x.(SymFloat)
	switch s.Mode {
	case FExactInt:
		return s
	case FOpaque:
		return fr.freshOpaque("round-opaque")
	}
	fr.i.px.fpOps++
	return mkFP(fr.ctx().FRound(mode, fr.toFP(s)))
}

func (fr *frame) floatAbs(x value) value {
	if xf, ok := x.(float64); ok {
		return math.Abs(xf)
	}
	c := fr.ctx()
	s := x.(SymFloat)
	switch s.Mode {
	case FExactInt:
		return mkExactInt(c.Ite(c.SLt(s.T, c.BVConst(0, 64)), c.Neg(s.T), s.T), s.Bits)
	case FRat:
		return SymFloat{Mode: FRat, T: c.Ite(c.SLt(s.T, c.BVConst(0, 64)), c.Neg(s.T), s.T), Den: s.Den, Bits: s.Bits}
	case FOpaque:
		return fr.freshOpaque("abs-opaque")
	}
	return mkFP(c.FAbs(s.T))
}

func (fr *frame) floatIsNaN(x value) value {
	if xf, ok := x.(float64); ok {
		return xf != xf
	}
	s := x.(SymFloat)
	switch s.Mode {
	case FExactInt, FRat, FAffine:
		return false
	case FOpaque:
		fr.i.px.havocDecisions++
		return SymBool{fr.i.px.freshVar("havoc.isnan", smt.Bool)}
	}
	return mkSymBool(fr.ctx().FIsNaN(s.T))
}

func (fr *frame) floatIsInf(x value, sign int) value {
	if xf, ok := x.(float64); ok {
		return math.IsInf(xf, sign)
	}
	c := fr.ctx()
	s := x.(SymFloat)
	switch s.Mode {
	case FExactInt, FRat:
		return false
	case FOpaque:
		fr.i.px.havocDecisions++
		return SymBool{fr.i.px.freshVar("havoc.isinf", smt.Bool)}
	}
	switch {
	case sign > 0:
		return mkSymBool(c.FEq(s.T, c.FPConst(math.Inf(1))))
	case sign < 0:
		return mkSymBool(c.FEq(s.T, c.FPConst(math.Inf(-1))))
	}
	return mkSymBool(c.FIsInf(s.T))
}

// cmpIntWithConst compares an exact integer with a concrete finite non-integer constant.
func (fr *frame) cmpIntWithConst(op token.Token, x, y value, xt, yt *smt.Term, xIsInt bool) (value, bool) {
	c := fr.ctx()
	var t *smt.Term
	var k float64
	if xIsInt {
		kf, ok := y.(float64)
		if !ok {
			return nil, false
		}
		t, k = xt, kf
	} else {
		kf, ok := x.(float64)
		if !ok {
			return nil, false
		}
		t, k = yt, kf
		// mirror: k op t  ==  t op' k
		switch op {
		case token.LSS:
			op = token.GTR
		case token.LEQ:
			op = token.GEQ
		case token.GTR:
			op = token.LSS
		case token.GEQ:
			op = token.LEQ
		}
	}
	if k != k || math.IsInf(k, 0) || math.Abs(k) >= 1<<exactIntMaxBits || k == math.Trunc(k) {
		return nil, false
	}
	fl := c.BVConst(uint64(int64(math.Floor(k))), 64)
	ce := c.BVConst(uint64(int64(math.Ceil(k))), 64)
	switch op {
	case token.LSS, token.LEQ:
		return mkSymBool(c.SLe(t, fl)), true
	case token.GTR, token.GEQ:
		return mkSymBool(c.SLe(ce, t)), true
	case token.EQL:
		return false, true
	case token.NEQ:
		return true, true
	}
	return nil, false
}

// exactQuotient: (k*c)/d with constant d dividing constant c is exactly the integer k*(c/d).
func (fr *frame) exactQuotient(n, d *smt.Term, bits int) (value, bool) {
	c := fr.ctx()
	if !d.IsConst() || int64(d.U) <= 0 {
		return nil, false
	}
	if d.U == 1 {
		return mkExactInt(n, bits), true
	}
	if n.Op == "bvmul" && len(n.Args) == 2 {
		for i := 0; i < 2; i++ {
			cst, oth := n.Args[i], n.Args[1-i]
			if cst.IsConst() && int64(cst.U) > 0 && int64(cst.U)%int64(d.U) == 0 {
				return mkExactInt(c.Mul(oth, c.BVConst(uint64(int64(cst.U)/int64(d.U)), 64)), bits), true
			}
		}
	}
	return nil, false
}

const affineMaxBits = 40
const affineMaxOps = 8

// asAffine views x as T + K: (term, K, bits, ops, ok). Exact integers have K = 0; concrete
// non-integers have T = 0.
func (fr *frame) asAffine(x value) (*smt.Term, float64, int, int, bool) {
	switch x := x.(type) {
	case float64:
		if x != x || math.IsInf(x, 0) || math.Abs(x) >= 1<<20 {
			return nil, 0, 0, 0, false
		}
		if x == math.Trunc(x) {
			return fr.ctx().BVConst(uint64(int64(x)), 64), 0, smt.BitLen(int64(x)), 0, true
		}
		return fr.ctx().BVConst(0, 64), x, 0, 0, true
	case SymFloat:
		switch x.Mode {
		case FExactInt:
			if x.Bits <= affineMaxBits {
				return x.T, 0, x.Bits, 0, true
			}
		case FAffine:
			return x.T, x.K, x.Bits, x.Ops, true
		}
	}
	return nil, 0, 0, 0, false
}

func (fr *frame) affineBinop(op token.Token, x, y value, isCmp bool) (value, bool) {
	xs, xIsS := x.(SymFloat)
	ys, yIsS := y.(SymFloat)
	xAff := xIsS && xs.Mode == FAffine
	yAff := yIsS && ys.Mode == FAffine
	xf, xIsF := x.(float64)
	yf, yIsF := y.(float64)
	xNonInt := xIsF && xf != math.Trunc(xf)
	yNonInt := yIsF && yf != math.Trunc(yf)
	xExact := xIsS && xs.Mode == FExactInt
	yExact := yIsS && ys.Mode == FExactInt
	// engage only when an affine value is involved, or an exact integer meets a non-integer constant
	if !(xAff || yAff || (xExact && yNonInt) || (yExact && xNonInt)) {
		return nil, false
	}
	if isCmp && ((xExact && yNonInt) || (yExact && xNonInt)) {
		return nil, false // handled exactly by cmpIntWithConst
	}
	if (op == token.MUL || op == token.QUO) && !xAff && !yAff {
		return nil, false // exact integer x non-integer constant: IEEE semantics in the FP theory
	}
	xt, xk, xb, xo, ok1 := fr.asAffine(x)
	yt, yk, yb, yo, ok2 := fr.asAffine(y)
	if !ok1 || !ok2 {
		return nil, false
	}
	c := fr.ctx()
	mk := func(t *smt.Term, k float64, bits, ops int) value {
		if bits > affineMaxBits || ops > affineMaxOps || math.Abs(k) >= 1<<20 {
			panic(domainExit{"integer+constant float chain too long or too large"})
		}
		if k == 0 {
			return mkExactInt(t, bits)
		}
		if t.IsConst() {
			return float64(int64(t.U)) + k
		}
		return SymFloat{Mode: FAffine, T: t, K: k, Bits: bits, Ops: ops}
	}
	switch op {
	case token.ADD:
		return mk(c.Add(xt, yt), xk+yk, imax(xb, yb)+1, xo+yo+1), true
	case token.SUB:
		return mk(c.Sub(xt, yt), xk-yk, imax(xb, yb)+1, xo+yo+1), true
	}
	if !isCmp {
		panic(domainExit{"unsupported arithmetic on integer+constant float: " + op.String()})
	}
	// x ? y  <=>  (xt - yt) ? d   with d = yk - xk (a concrete real)
	d := yk - xk
	diff := c.Sub(xt, yt)
	near := math.Abs(d - math.Round(d))
	if near <= 1.0/4096 {
		if near == 0 && xo+yo == 0 {
			// both sides exact: integer comparison
			di := c.BVConst(uint64(int64(d)), 64)
			return fr.cmpTerms(op, diff, di), true
		}
		panic(domainExit{"possible floating-point tie between integer+constant values (DESIGN.md D3)"})
	}
	fl := c.BVConst(uint64(int64(math.Floor(d))), 64)
	ce := c.BVConst(uint64(int64(math.Ceil(d))), 64)
	switch op {
	case token.LSS, token.LEQ:
		return mkSymBool(c.SLe(diff, fl)), true
	case token.GTR, token.GEQ:
		return mkSymBool(c.SLe(ce, diff)), true
	case token.EQL:
		return false, true
	case token.NEQ:
		return true, true
	}
	return nil, false
}

func (fr *frame) cmpTerms(op token.Token, a, b *smt.Term) value {
	c := fr.ctx()
	switch op {
	case token.LSS:
		return mkSymBool(c.SLt(a, b))
	case token.LEQ:
		return mkSymBool(c.SLe(a, b))
	case token.GTR:
		return mkSymBool(c.SLt(b, a))
	case token.GEQ:
		return mkSymBool(c.SLe(b, a))
	case token.EQL:
		return mkSymBool(c.Eq(a, b))
	}
	return mkSymBool(c.Not(c.Eq(a, b)))
}

// mulNarrow multiplies two signed 64-bit terms known to satisfy |a| < 2^ab, |b| < 2^bb in a
// bit-vector just wide enough for the product (a 64x64 multiplier is what makes cross-multiplied
// ratio comparisons slow to bit-blast), then sign-extends back to 64 bits. Exact.
func (fr *frame) mulNarrow(a, b *smt.Term, ab, bb int) *smt.Term {
	c := fr.ctx()
	w := ab + bb + 2
	if w >= 64 || a.IsConst() || b.IsConst() {
		return c.Mul(a, b)
	}
	return c.SExt(c.Mul(c.Extract(w-1, 0, a), c.Extract(w-1, 0, b)), 64)
}

func isFiniteSym(v value) bool {
	s, ok := v.(SymFloat)
	return ok && (s.Mode == FExactInt || s.Mode == FRat || s.Mode == FAffine)
}

// cmpWithNonFinite decides comparisons between a symbolic value known to be finite and a concrete
// infinity or NaN.
func cmpWithNonFinite(op token.Token, x, y value) (value, bool) {
	xf, xc := x.(float64)
	yf, yc := y.(float64)
	var k float64
	symLeft := false
	switch {
	case xc && !yc && isFiniteSym(y) && (math.IsInf(xf, 0) || xf != xf):
		k = xf
	case yc && !xc && isFiniteSym(x) && (math.IsInf(yf, 0) || yf != yf):
		k, symLeft = yf, true
	default:
		return nil, false
	}
	if k != k {
		return op == token.NEQ, true
	}
	// compare finite f with k: f < +Inf, f > -Inf
	less := math.IsInf(k, 1) // finite < k
	if !symLeft {
		less = !less // k < finite  <=> k is -Inf
		less = math.IsInf(k, -1)
	}
	switch op {
	case token.LSS, token.LEQ:
		return less, true
	case token.GTR, token.GEQ:
		return !less, true
	case token.EQL:
		return false, true
	case token.NEQ:
		return true, true
	}
	return nil, false
}
