package interp

import (
	"fmt"
	"go/token"
	"go/types"
	"math"

	"verif/engine/smt"
)

// Float64 representations (DESIGN.md section 3). Every operation either stays in an exact
// representation (ExactInt, Rat) or is lifted, exactly, to the SMT floating-point theory.

const exactIntMaxBits = 52
const ratMaxBits = 20

// asExactInt views x (concrete or symbolic) as an exact integer: (signed 64-bit term, bits, ok).
func (fr *frame) asExactInt(x value) (*smt.Term, int, bool) {
	switch x := x.(type) {
	case float64:
		if x == math.Trunc(x) && math.Abs(x) < 1<<exactIntMaxBits && !(x == 0 && math.Signbit(x)) {
			return fr.ctx().BVConst(uint64(int64(x)), 64), smt.BitLen(int64(x)), true
		}
	case SymFloat:
		if x.Mode == FExactInt {
			return x.T, x.Bits, true
		}
	}
	return nil, 0, false
}

func mkExactInt(t *smt.Term, bits int) value {
	if t.IsConst() {
		return float64(int64(t.U))
	}
	if bits > exactIntMaxBits {
		panic(engineError{"mkExactInt: bits out of range"})
	}
	if bits < 1 {
		bits = 1
	}
	return SymFloat{Mode: FExactInt, T: t, Bits: bits}
}

func mkFP(t *smt.Term) value {
	if t.IsConst() {
		return t.F
	}
	return SymFloat{Mode: FFP, T: t}
}

// toFP lifts any float value to a FloatingPoint term denoting exactly the same double.
func (fr *frame) toFP(x value) *smt.Term {
	c := fr.ctx()
	switch x := x.(type) {
	case float64:
		return c.FPConst(x)
	case SymFloat:
		switch x.Mode {
		case FExactInt:
			return c.FFromSBV(x.T)
		case FFP, FOpaque:
			return x.T
		case FRat:
			return c.FDiv(c.FFromSBV(x.T), c.FFromSBV(x.Den))
		}
	}
	panic(engineError{fmt.Sprintf("toFP: %T", x)})
}

func isOpaque(x value) bool {
	s, ok := x.(SymFloat)
	return ok && s.Mode == FOpaque
}

func (fr *frame) freshOpaque(why string) value {
	px := fr.i.px
	px.havocKernels[why]++
	t := px.freshVar("opaque."+why, smt.FP64)
	return SymFloat{Mode: FOpaque, T: t}
}

func (fr *frame) asRat(x value) (n, d *smt.Term, bits int, ok bool) {
	if s, isS := x.(SymFloat); isS && s.Mode == FRat {
		return s.T, s.Den, s.Bits, true
	}
	if t, b, isI := fr.asExactInt(x); isI && b <= ratMaxBits {
		return t, fr.ctx().BVConst(1, 64), b, true
	}
	return nil, nil, 0, false
}

func (fr *frame) floatBinop(op token.Token, x, y value) value {
	c := fr.ctx()
	if f32, ok := x.(float32); ok {
		x = float64(f32)
	}
	if f32, ok := y.(float32); ok {
		y = float64(f32)
	}
	isCmp := false
	switch op {
	case token.LSS, token.LEQ, token.GTR, token.GEQ, token.EQL, token.NEQ:
		isCmp = true
	}
	if isOpaque(x) || isOpaque(y) {
		if isCmp {
			fr.i.px.havocDecisions++
			b := fr.i.px.freshVar("havoc.cmp", smt.Bool)
			return SymBool{b}
		}
		return fr.freshOpaque("arith-on-opaque")
	}
	// exact integer domain
	xt, xb, xi := fr.asExactInt(x)
	yt, yb, yi := fr.asExactInt(y)
	if xi && yi {
		switch op {
		case token.ADD:
			if b := imax(xb, yb) + 1; b <= exactIntMaxBits {
				return mkExactInt(c.Add(xt, yt), b)
			}
		case token.SUB:
			if b := imax(xb, yb) + 1; b <= exactIntMaxBits {
				return mkExactInt(c.Sub(xt, yt), b)
			}
		case token.MUL:
			if b := xb + yb; b <= exactIntMaxBits {
				return mkExactInt(c.Mul(xt, yt), b)
			}
		case token.QUO:
			if xb <= ratMaxBits && yb <= ratMaxBits {
				return fr.mkRat(xt, yt, imax(xb, yb))
			}
		case token.LSS:
			return mkSymBool(c.SLt(xt, yt))
		case token.LEQ:
			return mkSymBool(c.SLe(xt, yt))
		case token.GTR:
			return mkSymBool(c.SLt(yt, xt))
		case token.GEQ:
			return mkSymBool(c.SLe(yt, xt))
		case token.EQL:
			return mkSymBool(c.Eq(xt, yt))
		case token.NEQ:
			return mkSymBool(c.Not(c.Eq(xt, yt)))
		}
	}
	// exact rationals: comparisons only
	if isCmp {
		xn, xd, _, xr := fr.asRat(x)
		yn, yd, _, yr := fr.asRat(y)
		if xr && yr {
			l := c.Mul(xn, yd)
			r := c.Mul(yn, xd)
			switch op {
			case token.LSS:
				return mkSymBool(c.SLt(l, r))
			case token.LEQ:
				return mkSymBool(c.SLe(l, r))
			case token.GTR:
				return mkSymBool(c.SLt(r, l))
			case token.GEQ:
				return mkSymBool(c.SLe(r, l))
			case token.EQL:
				return mkSymBool(c.Eq(l, r))
			case token.NEQ:
				return mkSymBool(c.Not(c.Eq(l, r)))
			}
		}
	}
	// Rat * power-of-two constant stays Rat (exact in IEEE, barring overflow which Bits excludes)
	if op == token.MUL {
		if r, ok := fr.ratTimesPow2(x, y); ok {
			return r
		}
		if r, ok := fr.ratTimesPow2(y, x); ok {
			return r
		}
	}
	if fr.i.px.opaqueNonlinear && (op == token.MUL || op == token.QUO) {
		return fr.freshOpaque("nonlinear-float")
	}
	// general case: IEEE semantics in the FP theory
	fr.i.px.fpOps++
	fx, fy := fr.toFP(x), fr.toFP(y)
	switch op {
	case token.ADD:
		return mkFP(c.FAdd(fx, fy))
	case token.SUB:
		return mkFP(c.FSub(fx, fy))
	case token.MUL:
		return mkFP(c.FMul(fx, fy))
	case token.QUO:
		return mkFP(c.FDiv(fx, fy))
	case token.LSS:
		return mkSymBool(c.FLt(fx, fy))
	case token.LEQ:
		return mkSymBool(c.FLe(fx, fy))
	case token.GTR:
		return mkSymBool(c.FLt(fy, fx))
	case token.GEQ:
		return mkSymBool(c.FLe(fy, fx))
	case token.EQL:
		return mkSymBool(c.FEq(fx, fy))
	case token.NEQ:
		return mkSymBool(c.Not(c.FEq(fx, fy)))
	}
	panic(engineError{fmt.Sprintf("invalid float op %s", op)})
}

func (fr *frame) ratTimesPow2(r, k value) (value, bool) {
	s, ok := r.(SymFloat)
	if !ok || s.Mode != FRat {
		return nil, false
	}
	kf, ok := k.(float64)
	if !ok || kf <= 0 || kf > 1024 {
		return nil, false
	}
	fr2, _ := math.Frexp(kf)
	if fr2 != 0.5 || kf < 1 {
		return nil, false
	}
	m := int64(kf)
	b := s.Bits + smt.BitLen(m)
	if b > ratMaxBits+10 {
		return nil, false
	}
	return SymFloat{Mode: FRat, T: fr.ctx().Mul(s.T, fr.ctx().BVConst(uint64(m), 64)), Den: s.Den, Bits: b}, true
}

// mkRat builds fl(n/d); forks on d == 0 and d < 0 so that Den > 0 holds afterwards.
func (fr *frame) mkRat(n, d *smt.Term, bits int) value {
	c := fr.ctx()
	zero := c.BVConst(0, 64)
	if fr.decide(c.Eq(d, zero), "fdiv.den==0") {
		if fr.decide(c.Eq(n, zero), "fdiv.0/0") {
			return math.NaN()
		}
		if fr.decide(c.SLt(n, zero), "fdiv.-x/0") {
			return math.Inf(-1)
		}
		return math.Inf(1)
	}
	if fr.decide(c.SLt(d, zero), "fdiv.den<0") {
		n, d = c.Neg(n), c.Neg(d)
	}
	if n.IsConst() && d.IsConst() {
		return float64(int64(n.U)) / float64(int64(d.U))
	}
	if d.IsConst() && d.U == 1 {
		return mkExactInt(n, bits)
	}
	return SymFloat{Mode: FRat, T: n, Den: d, Bits: bits}
}

func (fr *frame) floatNeg(x SymFloat) value {
	c := fr.ctx()
	switch x.Mode {
	case FExactInt:
		return mkExactInt(c.Neg(x.T), x.Bits)
	case FRat:
		return SymFloat{Mode: FRat, T: c.Neg(x.T), Den: x.Den, Bits: x.Bits}
	case FOpaque:
		return fr.freshOpaque("neg-opaque")
	}
	return mkFP(c.FNeg(x.T))
}

// floatMinMax implements math.Min/math.Max (builtin=false) and the min/max builtins.
// Both have identical NaN/±0 behaviour except math.Max(+Inf,NaN)=+Inf vs builtin NaN; the ExactInt
// and Rat domains contain neither.
func (fr *frame) floatMinMax(isMin bool, x, y value, builtin bool) value {
	c := fr.ctx()
	if f32, ok := x.(float32); ok {
		x = float64(f32)
	}
	if f32, ok := y.(float32); ok {
		y = float64(f32)
	}
	if xf, ok := x.(float64); ok {
		if yf, ok := y.(float64); ok {
			if builtin {
				if isMin {
					return min(xf, yf)
				}
				return max(xf, yf)
			}
			if isMin {
				return math.Min(xf, yf)
			}
			return math.Max(xf, yf)
		}
	}
	if isOpaque(x) || isOpaque(y) {
		return fr.freshOpaque("minmax-opaque")
	}
	xt, xb, xi := fr.asExactInt(x)
	yt, yb, yi := fr.asExactInt(y)
	if xi && yi {
		cond := c.SLt(xt, yt)
		if !isMin {
			cond = c.SLt(yt, xt)
		}
		return mkExactInt(c.Ite(cond, xt, yt), imax(xb, yb))
	}
	xn, xd, xrb, xr := fr.asRat(x)
	yn, yd, yrb, yr := fr.asRat(y)
	if xr && yr {
		l, r := c.Mul(xn, yd), c.Mul(yn, xd)
		cond := c.SLt(l, r)
		if !isMin {
			cond = c.SLt(r, l)
		}
		n := c.Ite(cond, xn, yn)
		d := c.Ite(cond, xd, yd)
		if d.IsConst() && d.U == 1 {
			return mkExactInt(n, imax(xrb, yrb))
		}
		return SymFloat{Mode: FRat, T: n, Den: d, Bits: imax(xrb, yrb)}
	}
	fr.i.px.fpOps++
	fx, fy := fr.toFP(x), fr.toFP(y)
	nan := c.FPConst(math.NaN())
	anyNaN := c.Or(c.FIsNaN(fx), c.FIsNaN(fy))
	bothZero := c.And(c.FEq(fx, c.FPConst(0)), c.FEq(fy, c.FPConst(0)))
	var pick, zeroPick *smt.Term
	if isMin {
		pick = c.Ite(c.FLt(fx, fy), fx, fy)
		// min(±0,±0): -0 if either is -0
		zeroPick = c.Ite(c.Or(c.FIsNeg(fx), c.FIsNeg(fy)), c.FPConst(math.Copysign(0, -1)), c.FPConst(0))
	} else {
		pick = c.Ite(c.FLt(fy, fx), fx, fy)
		zeroPick = c.Ite(c.And(c.FIsNeg(fx), c.FIsNeg(fy)), c.FPConst(math.Copysign(0, -1)), c.FPConst(0))
	}
	r := c.Ite(anyNaN, nan, c.Ite(bothZero, zeroPick, pick))
	if !builtin {
		// math.Max(x, +Inf) = +Inf even with NaN; math.Min(x, -Inf) = -Inf even with NaN
		if isMin {
			ninf := c.FPConst(math.Inf(-1))
			r = c.Ite(c.Or(c.FEq(fx, ninf), c.FEq(fy, ninf)), ninf, r)
		} else {
			pinf := c.FPConst(math.Inf(1))
			r = c.Ite(c.Or(c.FEq(fx, pinf), c.FEq(fy, pinf)), pinf, r)
		}
	}
	return mkFP(r)
}

func (fr *frame) intToFloat(sx SymInt) value {
	c := fr.ctx()
	if sx.Bits <= exactIntMaxBits {
		return mkExactInt(c.Resize(sx.T, 64, kindSigned(sx.K)), sx.Bits)
	}
	fr.i.px.fpOps++
	if kindSigned(sx.K) {
		return mkFP(c.FFromSBV(sx.T))
	}
	return mkFP(c.FFromUBV(sx.T))
}

func (fr *frame) floatToInt(sx SymFloat, dk types.BasicKind) value {
	c := fr.ctx()
	w := kindWidth(dk)
	switch sx.Mode {
	case FExactInt:
		if kindSigned(dk) && (w == 64 || sx.Bits < w) {
			return mkSymInt(c.Resize(sx.T, w, true), dk, sx.Bits)
		}
		if !kindSigned(dk) {
			// negative -> implementation-specific; require non-negative
			if fr.decide(c.SLt(sx.T, c.BVConst(0, 64)), "f2u.neg") {
				panic(engineError{"conversion of negative float to unsigned integer is implementation-specific"})
			}
			if sx.Bits <= w {
				return mkSymInt(c.Resize(sx.T, w, false), dk, sx.Bits)
			}
		}
		panic(engineError{fmt.Sprintf("float->%v conversion may be out of range (bits=%d)", dk, sx.Bits)})
	case FOpaque:
		fr.i.px.havocKernels["opaque-to-int"]++
		return SymInt{T: fr.i.px.freshVar("opaque.int", smt.BV(w)), K: dk, Bits: w}
	}
	if !kindSigned(dk) || w != 64 {
		panic(engineError{fmt.Sprintf("symbolic float64 -> %v conversion not supported (only int64/int)", dk)})
	}
	fr.i.px.fpOps++
	f := fr.toFP(sx)
	// Go/amd64 CVTTSD2SQ: NaN and out-of-range give 0x8000000000000000.
	lo := c.FPConst(-9223372036854775808.0)
	hi := c.FPConst(9223372036854775808.0)
	inRange := c.And(c.FLe(lo, f), c.FLt(f, hi))
	r := c.Ite(inRange, c.FToSBV(f, 64), c.BVConst(1<<63, 64))
	return mkSymInt(r, dk, 64)
}

// floatRound implements math.Floor/Ceil/Trunc/Round/RoundToEven.
func (fr *frame) floatRound(mode string, x value) value {
	if xf, ok := x.(float64); ok {
		switch mode {
		case "RTN":
			return math.Floor(xf)
		case "RTP":
			return math.Ceil(xf)
		case "RTZ":
			return math.Trunc(xf)
		case "RNA":
			return math.Round(xf)
		default:
			return math.RoundToEven(xf)
		}
	}
	s := x.(SymFloat)
	switch s.Mode {
	case FExactInt:
		return s
	case FOpaque:
		return fr.freshOpaque("round-opaque")
	}
	fr.i.px.fpOps++
	return mkFP(fr.ctx().FRound(mode, fr.toFP(s)))
}

func (fr *frame) floatAbs(x value) value {
	if xf, ok := x.(float64); ok {
		return math.Abs(xf)
	}
	c := fr.ctx()
	s := x.(SymFloat)
	switch s.Mode {
	case FExactInt:
		return mkExactInt(c.Ite(c.SLt(s.T, c.BVConst(0, 64)), c.Neg(s.T), s.T), s.Bits)
	case FRat:
		return SymFloat{Mode: FRat, T: c.Ite(c.SLt(s.T, c.BVConst(0, 64)), c.Neg(s.T), s.T), Den: s.Den, Bits: s.Bits}
	case FOpaque:
		return fr.freshOpaque("abs-opaque")
	}
	return mkFP(c.FAbs(s.T))
}

func (fr *frame) floatIsNaN(x value) value {
	if xf, ok := x.(float64); ok {
		return xf != xf
	}
	s := x.(SymFloat)
	switch s.Mode {
	case FExactInt, FRat:
		return false
	case FOpaque:
		fr.i.px.havocDecisions++
		return SymBool{fr.i.px.freshVar("havoc.isnan", smt.Bool)}
	}
	return mkSymBool(fr.ctx().FIsNaN(s.T))
}

func (fr *frame) floatIsInf(x value, sign int) value {
	if xf, ok := x.(float64); ok {
		return math.IsInf(xf, sign)
	}
	c := fr.ctx()
	s := x.(SymFloat)
	switch s.Mode {
	case FExactInt, FRat:
		return false
	case FOpaque:
		fr.i.px.havocDecisions++
		return SymBool{fr.i.px.freshVar("havoc.isinf", smt.Bool)}
	}
	switch {
	case sign > 0:
		return mkSymBool(c.FEq(s.T, c.FPConst(math.Inf(1))))
	case sign < 0:
		return mkSymBool(c.FEq(s.T, c.FPConst(math.Inf(-1))))
	}
	return mkSymBool(c.FIsInf(s.T))
}
