package interp

import (
	"go/token"
	"go/types"

	"golang.org/x/tools/go/ssa"
	"verif/engine/smt"
)

// State merging at symbolic branches (DESIGN.md 2.1): short-circuit fusion of `a && b` / `a || b`
// control flow and if-conversion of side-effect-free triangles/diamonds into ite terms. Both only
// reduce the number of forks; any doubt (impure instruction, possible panic, unmergeable values)
// falls back to ordinary forking.

type specAbort struct{}

func pureInstr(in ssa.Instruction) bool {
	switch in := in.(type) {
	case *ssa.DebugRef, *ssa.BinOp, *ssa.Convert, *ssa.ChangeType, *ssa.ChangeInterface, *ssa.MakeInterface,
		*ssa.Field, *ssa.FieldAddr, *ssa.IndexAddr, *ssa.Index, *ssa.Lookup, *ssa.Extract, *ssa.Slice, *ssa.Phi:
		return true
	case *ssa.UnOp:
		return in.Op != token.ARROW
	case *ssa.TypeAssert:
		return in.CommaOk
	case *ssa.Call:
		if b, ok := in.Call.Value.(*ssa.Builtin); ok {
			switch b.Name() {
			case "len", "cap", "min", "max":
				return true
			}
			return false
		}
		if f, ok := in.Call.Value.(*ssa.Function); ok && in.Call.Method == nil {
			switch f.String() {
			case "math.Max", "math.Min", "math.Abs", "math.Floor", "math.Ceil", "math.Round", "math.IsNaN", "math.IsInf":
				return true
			}
		}
	}
	return false
}

// pureBody reports whether all instructions of b except the last are pure.
func pureBody(b *ssa.BasicBlock) bool {
	if len(b.Instrs) > 40 {
		return false
	}
	for _, in := range b.Instrs[:len(b.Instrs)-1] {
		if !pureInstr(in) {
			return false
		}
	}
	return true
}

func hasPhis(b *ssa.BasicBlock) bool {
	_, ok := b.Instrs[0].(*ssa.Phi)
	return ok
}

// specRun executes the body (all but the terminator) of block b, entered from pred, speculatively.
func (fr *frame) specRun(b, pred *ssa.BasicBlock) (ok bool) {
	px := fr.i.px
	px.spec++
	savedBlock, savedPrev := fr.block, fr.prevBlock
	defer func() {
		px.spec--
		fr.block, fr.prevBlock = savedBlock, savedPrev
		if r := recover(); r != nil {
			switch r.(type) {
			case budgetExceeded, unwindExceeded:
				panic(r)
			}
			px.panicTrace = ""
			ok = false
		}
	}()
	fr.prevBlock, fr.block = pred, b
	instrs := executePhis(fr)
	for _, in := range instrs[:len(instrs)-1] {
		visitInstr(fr, in)
	}
	return true
}

func (fr *frame) condTerm(v value) (*smt.Term, bool) {
	switch c := v.(type) {
	case bool:
		return fr.ctx().BoolConst(c), true
	case SymBool:
		return c.T, true
	}
	return nil, false
}

// tryMerge handles an If on symbolic condition c. It returns the (possibly fused) condition and
// targets to decide on, or merged=true when control was transferred to a join block via ite.
func (fr *frame) tryMerge(instr *ssa.If, c *smt.Term) (cond *smt.Term, tBlk, fBlk, tPred, fPred *ssa.BasicBlock, merged bool) {
	ctx := fr.ctx()
	b := fr.block
	cond, tBlk, fBlk, tPred, fPred = c, b.Succs[0], b.Succs[1], b, b
	if fr.i.env.NoMerge {
		return
	}
	// ---- short-circuit fusion (repeat for chains)
	for iter := 0; iter < 8; iter++ {
		fused := false
		// `cond && x`: true target is a pure single-predecessor block ending in If whose one arm is our false target
		if len(tBlk.Preds) == 1 && pureBody(tBlk) && !hasPhis(fBlk) {
			if in, ok := tBlk.Instrs[len(tBlk.Instrs)-1].(*ssa.If); ok {
				if tBlk.Succs[1] == fBlk || tBlk.Succs[0] == fBlk {
					if fr.specRun(tBlk, tPred) {
						if x, ok := fr.condTerm(fr.get(in.Cond)); ok {
							if tBlk.Succs[1] == fBlk {
								cond = ctx.And(cond, x)
								tPred, tBlk = tBlk, tBlk.Succs[0]
							} else {
								cond = ctx.And(cond, ctx.Not(x))
								tPred, tBlk = tBlk, tBlk.Succs[1]
							}
							fused = true
						}
					}
				}
			}
		}
		// `cond || x`: false target is a pure single-predecessor block ending in If whose one arm is our true target
		if !fused && len(fBlk.Preds) == 1 && pureBody(fBlk) && !hasPhis(tBlk) {
			if in, ok := fBlk.Instrs[len(fBlk.Instrs)-1].(*ssa.If); ok {
				if fBlk.Succs[0] == tBlk || fBlk.Succs[1] == tBlk {
					if fr.specRun(fBlk, fPred) {
						if x, ok := fr.condTerm(fr.get(in.Cond)); ok {
							if fBlk.Succs[0] == tBlk {
								cond = ctx.Or(cond, x)
								fPred, fBlk = fBlk, fBlk.Succs[1]
							} else {
								cond = ctx.Or(cond, ctx.Not(x))
								fPred, fBlk = fBlk, fBlk.Succs[0]
							}
							fused = true
						}
					}
				}
			}
		}
		if !fused {
			break
		}
		fr.i.px.fusions++
		if cond.IsConst() {
			return
		}
	}
	// ---- if-conversion of a triangle / diamond
	jumpTo := func(x *ssa.BasicBlock) *ssa.BasicBlock {
		if len(x.Preds) != 1 || !pureBody(x) {
			return nil
		}
		if _, ok := x.Instrs[len(x.Instrs)-1].(*ssa.Jump); ok {
			return x.Succs[0]
		}
		return nil
	}
	var join, tEdge, fEdge *ssa.BasicBlock
	tj, fj := jumpTo(tBlk), jumpTo(fBlk)
	switch {
	case tj != nil && tj == fBlk: // triangle: T -> F
		join, tEdge, fEdge = fBlk, tBlk, fPred
	case fj != nil && fj == tBlk: // triangle: F -> T
		join, tEdge, fEdge = tBlk, tPred, fBlk
	case tj != nil && tj == fj: // diamond
		join, tEdge, fEdge = tj, tBlk, fBlk
	default:
		return
	}
	if tEdge == fEdge || len(join.Preds) < 2 {
		return
	}
	if tEdge == tBlk && tBlk != join {
		if !fr.specRun(tBlk, tPred) {
			return
		}
	}
	if fEdge == fBlk && fBlk != join {
		if !fr.specRun(fBlk, fPred) {
			return
		}
	}
	// merge phis of join
	ti, fi := -1, -1
	for i, p := range join.Preds {
		if p == tEdge {
			ti = i
		}
		if p == fEdge {
			fi = i
		}
	}
	if ti < 0 || fi < 0 {
		return
	}
	over := map[*ssa.Phi]value{}
	for _, in := range join.Instrs {
		phi, ok := in.(*ssa.Phi)
		if !ok {
			break
		}
		m, ok := fr.mergeVals(cond, fr.get(phi.Edges[ti]), fr.get(phi.Edges[fi]), 0)
		if !ok {
			return
		}
		over[phi] = m
	}
	fr.i.px.merges++
	fr.phiOverride = over
	fr.prevBlock, fr.block = tEdge, join
	merged = true
	return
}

// mergeVals builds ite(c, a, b) for values of the same static type.
func (fr *frame) mergeVals(c *smt.Term, a, b value, depth int) (value, bool) {
	ctx := fr.ctx()
	if depth > 4 {
		return nil, false
	}
	switch x := a.(type) {
	case bool, SymBool:
		switch b.(type) {
		case bool, SymBool:
			return mkSymBool(ctx.Ite(c, fr.boolTerm(a), fr.boolTerm(b))), true
		}
		return nil, false
	case string:
		y, ok := b.(string)
		return a, ok && x == y
	case *value:
		y, ok := b.(*value)
		return a, ok && x == y
	case *omap:
		y, ok := b.(*omap)
		return a, ok && x == y
	case *closure:
		y, ok := b.(*closure)
		return a, ok && x == y
	case *ssa.Function:
		y, ok := b.(*ssa.Function)
		return a, ok && x == y
	case []value:
		y, ok := b.([]value)
		if !ok || len(x) != len(y) || cap(x) != cap(y) {
			return nil, false
		}
		if len(x) == 0 {
			return a, (x == nil) == (y == nil)
		}
		return a, &x[0] == &y[0]
	case iface:
		y, ok := b.(iface)
		if !ok || !sameType(x.t, y.t) {
			return nil, false
		}
		if x.t == nil {
			return a, true
		}
		m, ok := fr.mergeVals(c, x.v, y.v, depth+1)
		return iface{t: x.t, v: m}, ok
	case structure:
		y, ok := b.(structure)
		if !ok || len(x) != len(y) {
			return nil, false
		}
		out := make(structure, len(x))
		for i := range x {
			m, ok := fr.mergeVals(c, x[i], y[i], depth+1)
			if !ok {
				return nil, false
			}
			out[i] = m
		}
		return out, true
	case tuple:
		y, ok := b.(tuple)
		if !ok || len(x) != len(y) {
			return nil, false
		}
		out := make(tuple, len(x))
		for i := range x {
			m, ok := fr.mergeVals(c, x[i], y[i], depth+1)
			if !ok {
				return nil, false
			}
			out[i] = m
		}
		return out, true
	}
	if isFloatVal(a) && isFloatVal(b) {
		if isOpaque(a) || isOpaque(b) {
			return nil, false
		}
		if f32, ok := a.(float32); ok {
			g32, ok := b.(float32)
			return a, ok && f32 == g32
		}
		at, ab, ai := fr.asExactInt(a)
		bt, bb, bi := fr.asExactInt(b)
		if ai && bi {
			return mkExactInt(ctx.Ite(c, at, bt), imax(ab, bb)), true
		}
		if sa, ok := a.(SymFloat); ok && sa.Mode == FAffine {
			if sb, ok := b.(SymFloat); ok && sb.Mode == FAffine && sa.K == sb.K {
				return SymFloat{Mode: FAffine, T: ctx.Ite(c, sa.T, sb.T), K: sa.K, Bits: imax(sa.Bits, sb.Bits), Ops: imax(sa.Ops, sb.Ops)}, true
			}
			return nil, false
		}
		if sb, ok := b.(SymFloat); ok && sb.Mode == FAffine {
			return nil, false
		}
		an, ad, arb, ar := fr.asRat(a)
		bn, bd, brb, br := fr.asRat(b)
		if ar && br {
			d := ctx.Ite(c, ad, bd)
			n := ctx.Ite(c, an, bn)
			if d.IsConst() && d.U == 1 {
				return mkExactInt(n, imax(arb, brb)), true
			}
			return SymFloat{Mode: FRat, T: n, Den: d, Bits: imax(arb, brb)}, true
		}
		return mkFP(ctx.Ite(c, fr.toFP(a), fr.toFP(b))), true
	}
	_, as := a.(SymInt)
	_, bs := b.(SymInt)
	if (as || isConcreteInt(a)) && (bs || isConcreteInt(b)) {
		at, ak, ab := fr.intTerm(a)
		bt, bk, bb := fr.intTerm(b)
		if ak != bk {
			return nil, false
		}
		return mkSymInt(ctx.Ite(c, at, bt), ak, imax(ab, bb)), true
	}
	_ = types.Typ
	return nil, false
}
