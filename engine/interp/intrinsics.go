package interp

import (
	"encoding/json"
	"fmt"
	"go/token"
	"go/types"
	"math"
	"os"
	"sort"
	"strconv"
	"strings"
	"unicode"
	"unicode/utf8"
	"unsafe"

	"golang.org/x/tools/go/ssa"
	"verif/engine/smt"
)

type externalFn func(fr *frame, args []value) value

// intrinsic returns the engine-side implementation of fn, or nil when fn is to be interpreted
// from its SSA body.
func (e *Env) intrinsic(name string, fn *ssa.Function) externalFn {
	if f, ok := e.intrinsics[name]; ok {
		return f
	}
	path := fnPkgPath(fn)
	if path == e.RtPkgPath {
		if f, ok := rtIntrinsics[fn.Name()]; ok {
			return f
		}
		panic(engineError{"unknown harness runtime function " + name})
	}
	if e.isStubPkg(path) {
		return func(fr *frame, args []value) value { return zeroResults(fn) }
	}
	if path == "sync/atomic" || path == "internal/runtime/atomic" {
		if f := atomicIntrinsic(fn); f != nil {
			return f
		}
	}
	if path == "reflect" || path == "internal/reflectlite" || path == "internal/abi" {
		// Reflection is not interpreted. Package initialisers of third-party libraries use it to
		// fill type tables that only reflection-based code reads: there (and only there) it is a
		// zero-returning stub; anywhere else it is a machinery error.
		return func(fr *frame, args []value) value {
			if fr.i.px.inInit > 0 {
				return zeroResults(fn)
			}
			panic(engineError{"reflection is not supported outside package initialisers: " + name + " [interp stack: " + fr.stackFromCaller() + "]"})
		}
	}
	return nil
}

func zeroResults(fn *ssa.Function) value {
	res := fn.Signature.Results()
	switch res.Len() {
	case 0:
		return nil
	case 1:
		return zero(res.At(0).Type())
	}
	return zero(res)
}

func str(v value) string {
	switch s := v.(type) {
	case string:
		return s
	}
	panic(engineError{fmt.Sprintf("expected concrete string, got %T", v)})
}

func strSlice(v value) []string {
	xs := v.([]value)
	out := make([]string, len(xs))
	for i, x := range xs {
		out[i] = str(x)
	}
	return out
}

func valStrs(ss []string) value {
	out := make([]value, len(ss))
	for i, s := range ss {
		out[i] = s
	}
	return out
}

func cint(fr *frame, v value, tag string) int {
	return int(asInt64(fr.concretize(v, tag)))
}

// ---- harness runtime (package zz_verifrt)

var rtIntrinsics map[string]externalFn

func (fr *frame) newInput(name, kind string, bits int, sort smt.Sort) (*smt.Term, string) {
	px := fr.i.px
	un := px.uniqueName(name)
	t := px.ctx.Var(un, sort)
	px.inputs = append(px.inputs, InputRec{Name: un, Kind: kind, Bits: sort.W, term: t})
	_ = bits
	return t, un
}

func (fr *frame) rangeSigned(t *smt.Term, bits int) {
	w := t.Sort.W
	if bits >= w {
		return
	}
	c := fr.ctx()
	if bits == w-1 {
		// |x| < 2^(w-1): everything but the minimum value
		fr.i.px.assertPC(c.Not(c.Eq(t, c.BVConst(uint64(1)<<uint(w-1), w))))
		return
	}
	lim := c.BVConst(uint64(1)<<uint(bits), w)
	fr.i.px.assertPC(c.And(c.SLt(c.Neg(lim), t), c.SLt(t, lim)))
}

func (fr *frame) anyInt(args []value, k types.BasicKind) value {
	name := str(args[0])
	bits := cint(fr, args[1], "bits")
	w := kindWidth(k)
	if bits > w {
		bits = w
	}
	kind := "int"
	if !kindSigned(k) {
		kind = "uint"
	}
	t, _ := fr.newInput(name, kind, bits, smt.BV(w))
	if kindSigned(k) {
		fr.rangeSigned(t, bits)
	} else if bits < w {
		c := fr.ctx()
		fr.i.px.assertPC(c.ULt(t, c.BVConst(uint64(1)<<uint(bits), w)))
	}
	b := bits
	if b >= w {
		b = w
	}
	return SymInt{T: t, K: k, Bits: b}
}

func init() {
	rtIntrinsics = map[string]externalFn{
		"Native": func(fr *frame, args []value) value { return false },
		"AnyBool": func(fr *frame, args []value) value {
			t, _ := fr.newInput(str(args[0]), "bool", 1, smt.Bool)
			return SymBool{t}
		},
		"AnyInt":    func(fr *frame, args []value) value { return fr.anyInt(args, types.Int) },
		"AnyInt32":  func(fr *frame, args []value) value { return fr.anyInt(args, types.Int32) },
		"AnyInt64":  func(fr *frame, args []value) value { return fr.anyInt(args, types.Int64) },
		"AnyUint64": func(fr *frame, args []value) value { return fr.anyInt(args, types.Uint64) },
		"AnyByte": func(fr *frame, args []value) value {
			t, _ := fr.newInput(str(args[0]), "uint", 8, smt.BV(8))
			return SymInt{T: t, K: types.Uint8, Bits: 8}
		},
		"AnyFloatInt": func(fr *frame, args []value) value {
			bits := cint(fr, args[1], "bits")
			if bits > exactIntMaxBits-2 {
				panic(engineError{"AnyFloatInt: bits too large"})
			}
			t, _ := fr.newInput(str(args[0]), "floatint", bits, smt.BV(64))
			fr.rangeSigned(t, bits)
			return SymFloat{Mode: FExactInt, T: t, Bits: bits}
		},
		"AnyFloatNat": func(fr *frame, args []value) value {
			bits := cint(fr, args[1], "bits")
			if bits > exactIntMaxBits-2 {
				panic(engineError{"AnyFloatNat: bits too large"})
			}
			t, _ := fr.newInput(str(args[0]), "floatint", bits, smt.BV(64))
			c := fr.ctx()
			fr.i.px.assertPC(c.ULt(t, c.BVConst(uint64(1)<<uint(bits), 64)))
			return SymFloat{Mode: FExactInt, T: t, Bits: bits}
		},
		"AnyFloat64": func(fr *frame, args []value) value {
			px := fr.i.px
			un := px.uniqueName(str(args[0]))
			t := px.ctx.Var(un, smt.FP64)
			px.inputs = append(px.inputs, InputRec{Name: un, Kind: "float", Bits: 64, term: t})
			return SymFloat{Mode: FFP, T: t}
		},
		"AnyString": func(fr *frame, args []value) value {
			name := str(args[0])
			n := cint(fr, args[1], "len")
			bs := make([]value, n)
			for i := range bs {
				t, _ := fr.newInput(fmt.Sprintf("%s[%d]", name, i), "uint", 8, smt.BV(8))
				bs[i] = SymInt{T: t, K: types.Uint8, Bits: 8}
			}
			return mkString(bs)
		},
		"FloatString": func(fr *frame, args []value) value {
			px := fr.i.px
			name := str(args[0])
			un := px.uniqueName(name + ".f")
			ft := px.ctx.Var(un, smt.FP64)
			px.inputs = append(px.inputs, InputRec{Name: un, Kind: "float", Bits: 64, term: ft})
			un2 := px.uniqueName(name + ".err")
			et := px.ctx.Var(un2, smt.Bool)
			px.inputs = append(px.inputs, InputRec{Name: un2, Kind: "bool", Bits: 1, term: et})
			// strconv.ParseFloat contract: on error the value is 0 (syntax) or ±Inf (range)
			c := px.ctx
			onErr := c.Or(c.Eq(ft, c.FPConst(0)), c.FIsInf(ft))
			px.assertPC(c.Implies(et, onErr))
			tok := fmt.Sprintf("\x00parsefloat:%s", un)
			px.floatStrings[tok] = [2]*smt.Term{ft, et}
			return tok
		},
		"Choose": func(fr *frame, args []value) value {
			n := cint(fr, args[1], "choose.n")
			px := fr.i.px
			un := px.uniqueName(str(args[0]))
			k := fr.choose(n, un)
			px.inputs = append(px.inputs, InputRec{Name: un, Kind: "choose", Bits: 64, term: px.ctx.BVConst(uint64(k), 64)})
			return k
		},
		"Fault": func(fr *frame, args []value) value {
			// "this API call fails": a symbolic boolean; at most maxFaults of them are true on a path
			// (cardinality constraint in the path condition), so the solver picks the fault schedule.
			px := fr.i.px
			c := px.ctx
			t, _ := fr.newInput("fault:"+str(args[0]), "bool", 1, smt.Bool)
			one, zero := c.BVConst(1, 8), c.BVConst(0, 8)
			if px.faultCount == nil {
				px.faultCount = zero
			}
			px.faultCount = c.Add(px.faultCount, c.Ite(t, one, zero))
			px.nFaultVars++
			if px.nFaultVars > 200 {
				panic(engineError{"more than 200 fault sites on one path"})
			}
			px.assertPC(c.ULe(px.faultCount, c.BVConst(uint64(px.maxFaults), 8)))
			return SymBool{t}
		},
		"SetMaxFaults": func(fr *frame, args []value) value { fr.i.px.maxFaults = cint(fr, args[0], "maxfaults"); return nil },
		"Assume": func(fr *frame, args []value) value { fr.assume(args[0]); return nil },
		"Assert": func(fr *frame, args []value) value { fr.assertProp(args[0], str(args[1])); return nil },
		"Observe": func(fr *frame, args []value) value {
			px := fr.i.px
			px.observes = append(px.observes, obsRec{Name: px.uniqueName("obs:" + str(args[0])), val: args[1]})
			return nil
		},
		"SkipCalls": func(fr *frame, args []value) value {
			if fr.i.px.skipFns == nil {
				fr.i.px.skipFns = map[string]bool{}
			}
			fr.i.px.skipFns[str(args[0])] = true
			return nil
		},
		"TypeName": func(fr *frame, args []value) value {
			x, ok := args[0].(iface)
			if !ok || x.t == nil {
				return "<nil>"
			}
			n := x.t.String()
			if i := strings.LastIndex(n, "."); i >= 0 {
				n = n[i+1:]
			}
			return n
		},
		"NoPanic":   func(fr *frame, args []value) value { fr.i.px.noPanicID = str(args[0]); return nil },
		"SetUnwind": func(fr *frame, args []value) value { fr.i.px.unwind = cint(fr, args[0], "unwind"); return nil },
		"SetMaxSteps": func(fr *frame, args []value) value {
			fr.i.px.maxSteps = cint(fr, args[0], "maxsteps")
			return nil
		},
		"OpaqueNonlinear": func(fr *frame, args []value) value { fr.i.px.opaqueNonlinear = args[0].(bool); return nil },
		"Unreachable": func(fr *frame, args []value) value {
			fr.assertProp(false, str(args[0]))
			return nil
		},
		"Stop": func(fr *frame, args []value) value { panic(pathEnd{"stop"}) },
		"Cover": func(fr *frame, args []value) value {
			// reachability witness: the run must contain at least one feasible path on which cond holds
			px := fr.i.px
			id := str(args[1])
			if px.inPrefix() {
				return nil
			}
			if _, ok := px.covers[id]; !ok {
				px.covers[id] = 0
			}
			switch c := args[0].(type) {
			case bool:
				if c {
					px.covers[id]++
				}
			case SymBool:
				saved := px.model
				if px.check(c.T, false) == smt.Sat {
					px.covers[id]++
				}
				px.model = saved
			}
			return nil
		},
		"Bound": func(fr *frame, args []value) value {
			px := fr.i.px
			un := px.uniqueName("bound:" + str(args[0]))
			k := cint(fr, args[1], "bound.q")
			if fr.i.env.Tier == "thorough" {
				k = cint(fr, args[2], "bound.t")
			}
			px.inputs = append(px.inputs, InputRec{Name: un, Kind: "choose", Bits: 64, term: px.ctx.BVConst(uint64(k), 64)})
			return k
		},
	}
}


// ---- standard library and environment

func zeroFn(fr *frame, args []value) value { return nil }

func mathUnary(native func(float64) float64) externalFn {
	return func(fr *frame, args []value) value {
		if f, ok := args[0].(float64); ok {
			return native(f)
		}
		panic(engineError{"math function on symbolic argument not supported"})
	}
}

// goValue converts a concrete interpreter value to a host value for formatting.
func goValue(fr *frame, v value, depth int) any {
	switch x := v.(type) {
	case nil:
		return nil
	case bool, int, int8, int16, int32, int64, uint, uint8, uint16, uint32, uint64, uintptr, float32, float64, string, complex64, complex128:
		return x
	case SymInt, SymBool, SymFloat, SymString:
		return "<sym>"
	case iface:
		if x.t == nil {
			return nil
		}
		if depth < 3 {
			// error / Stringer
			if m := findMethod(fr.i.prog, x.t, "Error"); m != nil && m.Signature.Params().Len() == 0 {
				return safeCallString(fr, m, x.v)
			}
			if m := findMethod(fr.i.prog, x.t, "String"); m != nil && m.Signature.Params().Len() == 0 && m.Signature.Results().Len() == 1 {
				if b, ok := m.Signature.Results().At(0).Type().Underlying().(*types.Basic); ok && b.Kind() == types.String {
					return safeCallString(fr, m, x.v)
				}
			}
		}
		return goValue(fr, x.v, depth+1)
	case *value:
		if x == nil {
			return "<nil>"
		}
		return "<ptr>"
	case []value:
		if depth < 3 {
			out := make([]any, len(x))
			for i := range x {
				out[i] = goValue(fr, x[i], depth+1)
			}
			return out
		}
		return "<slice>"
	case structure:
		return "<struct>"
	case *omap:
		return "<map>"
	}
	return fmt.Sprintf("<%T>", v)
}

// findMethod returns the exported method `name` of t, or nil.
func findMethod(prog *ssa.Program, t types.Type, name string) *ssa.Function {
	sel := prog.MethodSets.MethodSet(t).Lookup(nil, name)
	if sel == nil {
		return nil
	}
	return prog.MethodValue(sel)
}

func safeCallString(fr *frame, m *ssa.Function, recv value) (out any) {
	defer func() {
		if r := recover(); r != nil {
			if _, isEngineErr := r.(engineError); isEngineAbort(r) && !isEngineErr {
				panic(r)
			}
			// formatting only: a String/Error method that panics or needs reflection yields a placeholder
			fr.i.px.panicTrace = ""
			out = "<unformattable>"
		}
	}()
	r := call(fr.i, fr, token.NoPos, m, []value{copyVal(recv)})
	if s, ok := r.(string); ok {
		return s
	}
	return "<sym>"
}

// jsonValue renders a concrete interpreter value of static type t as encoding/json would.
func jsonValue(sb *strings.Builder, t types.Type, v value) {
	switch u := t.Underlying().(type) {
	case *types.Basic:
		switch x := v.(type) {
		case string:
			b, _ := json.Marshal(x)
			sb.Write(b)
		case bool, int, int8, int16, int32, int64, uint, uint8, uint16, uint32, uint64, float32, float64:
			b, _ := json.Marshal(x)
			sb.Write(b)
		default:
			panic(engineError{fmt.Sprintf("json.Marshal of a symbolic or unsupported basic value %T", v)})
		}
	case *types.Map:
		m, _ := v.(*omap)
		if m == nil {
			sb.WriteString("null")
			return
		}
		type kv struct {
			k string
			v value
		}
		var kvs []kv
		it := &omapIter{m: m}
		for {
			e := it.next()
			if !e[0].(bool) {
				break
			}
			ks, ok := e[1].(string)
			if !ok {
				panic(engineError{"json.Marshal of a map with non-string keys"})
			}
			kvs = append(kvs, kv{ks, e[2]})
		}
		sort.Slice(kvs, func(i, j int) bool { return kvs[i].k < kvs[j].k })
		sb.WriteByte('{')
		for i, e := range kvs {
			if i > 0 {
				sb.WriteByte(',')
			}
			b, _ := json.Marshal(e.k)
			sb.Write(b)
			sb.WriteByte(':')
			jsonValue(sb, u.Elem(), e.v)
		}
		sb.WriteByte('}')
	case *types.Slice:
		xs, _ := v.([]value)
		if xs == nil {
			sb.WriteString("null")
			return
		}
		sb.WriteByte('[')
		for i, e := range xs {
			if i > 0 {
				sb.WriteByte(',')
			}
			jsonValue(sb, u.Elem(), e)
		}
		sb.WriteByte(']')
	case *types.Interface:
		x, ok := v.(iface)
		if !ok || x.t == nil {
			sb.WriteString("null")
			return
		}
		jsonValue(sb, x.t, x.v)
	default:
		sb.WriteString("{}")
	}
}

func sprintf(fr *frame, format string, args []value) string {
	gv := make([]any, len(args))
	for i, a := range args {
		gv[i] = goValue(fr, a, 0)
	}
	return fmt.Sprintf(format, gv...)
}

func sprint(fr *frame, args []value, ln bool) string {
	gv := make([]any, len(args))
	for i, a := range args {
		gv[i] = goValue(fr, a, 0)
	}
	if ln {
		return fmt.Sprintln(gv...)
	}
	return fmt.Sprint(gv...)
}

// mkError builds an error value. With a wrapped error (fmt.Errorf %w) it is *fmt.wrapError so
// errors.Is/Unwrap see the chain; otherwise *errors.errorString.
func (fr *frame) mkError(msg string, wrapped value) value {
	prog := fr.i.prog
	if w, ok := wrapped.(iface); ok && w.t != nil {
		if fp := prog.ImportedPackage("fmt"); fp != nil {
			if tn := fp.Type("wrapError"); tn != nil {
				var cell value = structure{msg, w}
				return iface{t: types.NewPointer(tn.Type()), v: &cell}
			}
		}
	}
	ep := prog.ImportedPackage("errors")
	if ep == nil {
		panic(engineError{"errors package not loaded"})
	}
	tn := ep.Type("errorString")
	var cell value = structure{msg}
	return iface{t: types.NewPointer(tn.Type()), v: &cell}
}

func errorsIs(fr *frame, err, target value) bool {
	e := err.(iface)
	t := target.(iface)
	if e.t == nil || t.t == nil {
		return e.t == nil && t.t == nil
	}
	comparable := types.Comparable(t.t)
	for depth := 0; depth < 64; depth++ {
		if comparable && sameType(e.t, t.t) {
			if r, ok := equals(fr, e.t, e.v, t.v).(bool); ok && r {
				return true
			}
		}
		if m := findMethod(fr.i.prog, e.t, "Is"); m != nil && m.Signature.Params().Len() == 1 {
			if r, ok := call(fr.i, fr, token.NoPos, m, []value{copyVal(e.v), t}).(bool); ok && r {
				return true
			}
		}
		m := findMethod(fr.i.prog, e.t, "Unwrap")
		if m == nil || m.Signature.Params().Len() != 0 || m.Signature.Results().Len() != 1 {
			return false
		}
		r := call(fr.i, fr, token.NoPos, m, []value{copyVal(e.v)})
		switch r := r.(type) {
		case iface:
			if r.t == nil {
				return false
			}
			e = r
		case []value:
			for _, x := range r {
				if errorsIs(fr, x, target) {
					return true
				}
			}
			return false
		default:
			return false
		}
	}
	return false
}

// errorsAs implements errors.As without reflection: target is an interface value holding *T.
func errorsAs(fr *frame, err, target value) bool {
	e := err.(iface)
	t := target.(iface)
	if t.t == nil {
		panic(runtimePanic{"errors: target cannot be nil"})
	}
	pt, ok := t.t.Underlying().(*types.Pointer)
	if !ok {
		panic(runtimePanic{"errors: target must be a non-nil pointer"})
	}
	T := pt.Elem()
	cell := t.v.(*value)
	for depth := 0; depth < 64 && e.t != nil; depth++ {
		if it, isIface := T.Underlying().(*types.Interface); isIface {
			if types.Implements(e.t, it) {
				*cell = e
				return true
			}
		} else if types.Identical(e.t, T) {
			*cell = copyVal(e.v)
			return true
		}
		if m := findMethod(fr.i.prog, e.t, "As"); m != nil && m.Signature.Params().Len() == 1 {
			if r, ok := call(fr.i, fr, token.NoPos, m, []value{copyVal(e.v), target}).(bool); ok && r {
				return true
			}
		}
		m := findMethod(fr.i.prog, e.t, "Unwrap")
		if m == nil || m.Signature.Params().Len() != 0 || m.Signature.Results().Len() != 1 {
			return false
		}
		r := call(fr.i, fr, token.NoPos, m, []value{copyVal(e.v)})
		switch r := r.(type) {
		case iface:
			e = r
		case []value:
			for _, x := range r {
				if errorsAs(fr, x, target) {
					return true
				}
			}
			return false
		default:
			return false
		}
	}
	return false
}

// deepEqual is reflect.DeepEqual over interpreter values (structural; symbolic leaves give a
// symbolic result).
func deepEqual(fr *frame, x, y value, depth int) value {
	if depth > 200 {
		panic(engineError{"deepEqual: too deep (cyclic?)"})
	}
	switch x := x.(type) {
	case iface:
		yy, ok := y.(iface)
		if !ok {
			return false
		}
		if !sameType(x.t, yy.t) {
			return false
		}
		if x.t == nil {
			return true
		}
		return deepEqual(fr, x.v, yy.v, depth+1)
	case *value:
		yy, ok := y.(*value)
		if !ok {
			return false
		}
		if x == nil || yy == nil {
			return x == yy
		}
		if x == yy {
			return true
		}
		return deepEqual(fr, *x, *yy, depth+1)
	case structure:
		yy, ok := y.(structure)
		if !ok || len(x) != len(yy) {
			return false
		}
		var r value = true
		for i := range x {
			r = condAnd(fr, r, deepEqual(fr, x[i], yy[i], depth+1))
			if r == false {
				return false
			}
		}
		return r
	case array:
		yy, ok := y.(array)
		if !ok || len(x) != len(yy) {
			return false
		}
		var r value = true
		for i := range x {
			r = condAnd(fr, r, deepEqual(fr, x[i], yy[i], depth+1))
			if r == false {
				return false
			}
		}
		return r
	case []value:
		yy, ok := y.([]value)
		if !ok {
			return false
		}
		if (x == nil) != (yy == nil) || len(x) != len(yy) {
			return false
		}
		var r value = true
		for i := range x {
			r = condAnd(fr, r, deepEqual(fr, x[i], yy[i], depth+1))
			if r == false {
				return false
			}
		}
		return r
	case *omap:
		yy, ok := y.(*omap)
		if !ok {
			return false
		}
		if (x == nil) != (yy == nil) || x.len() != yy.len() {
			return false
		}
		var r value = true
		if x != nil {
			for _, e := range x.entries {
				if e.deleted {
					continue
				}
				ov, ok := yy.lookup(e.key)
				if !ok {
					return false
				}
				r = condAnd(fr, r, deepEqual(fr, e.val, ov, depth+1))
				if r == false {
					return false
				}
			}
		}
		return r
	case *ssa.Function:
		yy, ok := y.(*ssa.Function)
		return ok && x == nil && yy == nil
	case *closure:
		return false
	case string, bool, float32, complex64, complex128:
		return x == y
	case float64:
		if _, ok := y.(SymFloat); ok {
			return fr.floatBinop(token.EQL, x, y)
		}
		return x == y
	case SymFloat:
		return fr.floatBinop(token.EQL, x, y)
	case SymBool:
		return mkSymBool(fr.ctx().Eq(x.T, fr.boolTerm(y)))
	}
	if isConcreteInt(x) || isSymScalar(x) {
		if !isConcreteInt(y) && !isSymScalar(y) {
			return false
		}
		if _, ok := x.(bool); ok {
			return mkSymBool(fr.ctx().Eq(fr.boolTerm(x), fr.boolTerm(y)))
		}
		xt, xk, _ := fr.intTerm(x)
		yt, yk, _ := fr.intTerm(y)
		if xk != yk {
			return false
		}
		return mkSymBool(fr.ctx().Eq(xt, yt))
	}
	panic(engineError{fmt.Sprintf("deepEqual: unsupported %T", x)})
}

// sortSlice is the engine's sort.Slice / sort.SliceStable: a stable insertion sort that calls the
// target's less closure.
func sortSlice(fr *frame, sl value, less value) {
	var xs []value
	switch s := sl.(type) {
	case iface:
		xs, _ = s.v.([]value)
	case []value:
		xs = s
	}
	lessFn := func(i, j int) bool {
		r := call(fr.i, fr, token.NoPos, less, []value{i, j})
		switch r := r.(type) {
		case bool:
			return r
		case SymBool:
			return fr.decide(r.T, "sort.less")
		}
		panic(engineError{"sort less returned non-bool"})
	}
	for i := 1; i < len(xs); i++ {
		for j := i; j > 0 && lessFn(j, j-1); j-- {
			xs[j], xs[j-1] = xs[j-1], xs[j]
		}
	}
}

// DefaultIntrinsics builds the table of engine-side implementations keyed by ssa function name.
func DefaultIntrinsics() map[string]externalFn {
	m := map[string]externalFn{}

	// --- math
	m["math.Floor"] = func(fr *frame, a []value) value { return fr.floatRound("RTN", a[0]) }
	m["math.Ceil"] = func(fr *frame, a []value) value { return fr.floatRound("RTP", a[0]) }
	m["math.Trunc"] = func(fr *frame, a []value) value { return fr.floatRound("RTZ", a[0]) }
	m["math.Round"] = func(fr *frame, a []value) value { return fr.floatRound("RNA", a[0]) }
	m["math.RoundToEven"] = func(fr *frame, a []value) value { return fr.floatRound("RNE", a[0]) }
	m["math.Abs"] = func(fr *frame, a []value) value { return fr.floatAbs(a[0]) }
	m["math.Max"] = func(fr *frame, a []value) value { return fr.floatMinMax(false, a[0], a[1], false) }
	m["math.Min"] = func(fr *frame, a []value) value { return fr.floatMinMax(true, a[0], a[1], false) }
	m["math.IsNaN"] = func(fr *frame, a []value) value { return fr.floatIsNaN(a[0]) }
	m["math.IsInf"] = func(fr *frame, a []value) value { return fr.floatIsInf(a[0], cint(fr, a[1], "sign")) }
	m["math.Inf"] = func(fr *frame, a []value) value { return math.Inf(cint(fr, a[0], "sign")) }
	m["math.NaN"] = func(fr *frame, a []value) value { return math.NaN() }
	m["math.Sqrt"] = mathUnary(math.Sqrt)
	m["math.Log"] = mathUnary(math.Log)
	m["math.Log2"] = mathUnary(math.Log2)
	m["math.Log10"] = mathUnary(math.Log10)
	m["math.Exp"] = mathUnary(math.Exp)
	m["math.Pow"] = func(fr *frame, a []value) value {
		x, ok1 := a[0].(float64)
		y, ok2 := a[1].(float64)
		if ok1 && ok2 {
			return math.Pow(x, y)
		}
		panic(engineError{"math.Pow on symbolic argument"})
	}
	m["math.Mod"] = func(fr *frame, a []value) value {
		x, ok1 := a[0].(float64)
		y, ok2 := a[1].(float64)
		if ok1 && ok2 {
			return math.Mod(x, y)
		}
		panic(engineError{"math.Mod on symbolic argument"})
	}
	m["math.Float64bits"] = func(fr *frame, a []value) value {
		if f, ok := a[0].(float64); ok {
			return math.Float64bits(f)
		}
		panic(engineError{"math.Float64bits on symbolic argument"})
	}
	m["math.Float64frombits"] = func(fr *frame, a []value) value {
		if u, ok := a[0].(uint64); ok {
			return math.Float64frombits(u)
		}
		panic(engineError{"math.Float64frombits on symbolic argument"})
	}
	m["math.Float32bits"] = func(fr *frame, a []value) value { return math.Float32bits(a[0].(float32)) }
	m["math.Float32frombits"] = func(fr *frame, a []value) value { return math.Float32frombits(a[0].(uint32)) }
	m["math.Signbit"] = func(fr *frame, a []value) value {
		if f, ok := a[0].(float64); ok {
			return math.Signbit(f)
		}
		s := a[0].(SymFloat)
		if s.Mode == FExactInt {
			return mkSymBool(fr.ctx().SLt(s.T, fr.ctx().BVConst(0, 64)))
		}
		panic(engineError{"math.Signbit on symbolic non-integer"})
	}

	// --- sync: no-ops (single-threaded, run-to-completion goroutines)
	for _, n := range []string{
		"(*sync.Mutex).Lock", "(*sync.Mutex).Unlock", "(*sync.RWMutex).Lock", "(*sync.RWMutex).Unlock",
		"(*sync.RWMutex).RLock", "(*sync.RWMutex).RUnlock", "(*sync.WaitGroup).Add", "(*sync.WaitGroup).Done",
		"(*sync.WaitGroup).Wait", "runtime.Gosched", "runtime.GC", "runtime.KeepAlive", "time.Sleep",
		"(*sync.Cond).Broadcast", "(*sync.Cond).Signal",
	} {
		m[n] = zeroFn
	}
	m["(*sync.Mutex).TryLock"] = func(fr *frame, a []value) value { return true }
	m["(*sync.WaitGroup).Go"] = func(fr *frame, a []value) value {
		call(fr.i, fr, token.NoPos, a[1], nil)
		return nil
	}
	m["(*sync.Once).Do"] = func(fr *frame, a []value) value {
		p := a[0].(*value)
		st := (*p).(structure)
		// field 0 is `_ noCopy`, field 1 `done atomic.Uint32` in recent Go; find the first struct-typed field with a uint32
		done := findOnceDone(st)
		if done == nil {
			panic(engineError{"sync.Once layout not recognised"})
		}
		if (*done).(uint32) == 0 {
			*done = uint32(1)
			call(fr.i, fr, token.NoPos, a[1], nil)
		}
		return nil
	}
	m["k8s.io/apimachinery/pkg/util/uuid.NewUUID"] = func(fr *frame, a []value) value {
		px := fr.i.px
		px.uuidN++
		return fmt.Sprintf("verif-uuid-%d", px.uuidN)
	}
	m["time.runtimeNano"] = func(fr *frame, a []value) value { return int64(1) }
	m["time.runtimeNow"] = func(fr *frame, a []value) value { return tuple{int64(1767225600), int32(0), int64(1)} }
	m["time.After"] = func(fr *frame, a []value) value { return &chanV{cap: 1, timer: true} }
	m["k8s.io/apimachinery/pkg/util/rand.String"] = func(fr *frame, a []value) value {
		px := fr.i.px
		px.uuidN++
		return fmt.Sprintf("r%04d", px.uuidN)
	}
	m["runtime.NumCPU"] = func(fr *frame, a []value) value { return 16 }
	m["runtime.GOMAXPROCS"] = func(fr *frame, a []value) value { return 16 }
	m["os.Getenv"] = func(fr *frame, a []value) value { return "" }
	m["os.LookupEnv"] = func(fr *frame, a []value) value { return tuple{"", false} }

	// --- fmt / errors
	m["fmt.Sprintf"] = func(fr *frame, a []value) value { return sprintf(fr, str(a[0]), a[1].([]value)) }
	m["fmt.Sprint"] = func(fr *frame, a []value) value { return sprint(fr, a[0].([]value), false) }
	m["fmt.Sprintln"] = func(fr *frame, a []value) value { return sprint(fr, a[0].([]value), true) }
	m["fmt.Errorf"] = func(fr *frame, a []value) value {
		format := str(a[0])
		args := a[1].([]value)
		var wrapped value
		if strings.Contains(format, "%w") {
			// the operand of the first %w
			n := 0
			for i := 0; i+1 < len(format); i++ {
				if format[i] == '%' {
					if format[i+1] == '%' {
						i++
						continue
					}
					j := i + 1
					for j < len(format) && strings.ContainsRune("+-# 0123456789.*[]", rune(format[j])) {
						j++
					}
					if j < len(format) && format[j] == 'w' && n < len(args) {
						wrapped = args[n]
						break
					}
					n++
					i = j
				}
			}
		}
		msg := sprintf(fr, strings.ReplaceAll(format, "%w", "%v"), args)
		return fr.mkError(msg, wrapped)
	}
	for _, n := range []string{"fmt.Printf", "fmt.Println", "fmt.Print", "fmt.Fprintf", "fmt.Fprintln", "fmt.Fprint"} {
		m[n] = func(fr *frame, a []value) value { return tuple{0, iface{}} }
	}
	m["errors.Is"] = func(fr *frame, a []value) value { return errorsIs(fr, a[0], a[1]) }
	m["errors.As"] = func(fr *frame, a []value) value { return errorsAs(fr, a[0], a[1]) }
	m["encoding/json.Marshal"] = func(fr *frame, a []value) value {
		// Real JSON for plain concrete data (maps with string keys, slices, strings, numbers, bools,
		// nested in interfaces) - what the binder's literal patches are made of; structs and
		// pointers (reflection, field tags) are rendered as {}.
		var sb strings.Builder
		if x, ok := a[0].(iface); ok && x.t != nil {
			jsonValue(&sb, x.t, x.v)
		} else {
			sb.WriteString("null")
		}
		out := make([]value, sb.Len())
		for i := 0; i < sb.Len(); i++ {
			out[i] = sb.String()[i]
		}
		return tuple{out, iface{}}
	}
	// FIPS service indicator bookkeeping of the crypto packages (goroutine-local runtime state): no-ops
	for _, n := range []string{"crypto/internal/fips140.RecordApproved", "crypto/internal/fips140.RecordNonApproved", "crypto/internal/fips140.ResetServiceIndicator"} {
		m[n] = zeroFn
	}
	// controller-runtime's reflection-based nil test of an event object
	m["sigs.k8s.io/controller-runtime/pkg/handler.isNil"] = func(fr *frame, a []value) value {
		x, ok := a[0].(iface)
		if !ok || x.t == nil {
			return true
		}
		if p, isPtr := x.v.(*value); isPtr {
			return p == nil
		}
		return x.v == nil
	}
	m["runtime/debug.Stack"] = func(fr *frame, a []value) value { return []value{} }
	// runtime.NewScheme names itself after its call site (runtime.Caller): a fixed name
	m["k8s.io/apimachinery/pkg/util/naming.GetNameFromCallsite"] = func(fr *frame, a []value) value { return "verif-callsite" }
	m["time.Now"] = func(fr *frame, a []value) value {
		// deterministic clock: 2026-01-01T00:00:00Z plus one second per call (wall=0: no monotonic part)
		px := fr.i.px
		px.clock++
		const unixToInternal = (1969*365 + 1969/4 - 1969/100 + 1969/400) * 86400
		sec := int64(1767225600) + unixToInternal + int64(px.clock)
		return structure{uint64(0), sec, (*value)(nil)}
	}
	m["reflect.DeepEqual"] = func(fr *frame, a []value) value { return deepEqual(fr, a[0], a[1], 0) }

	// --- sort
	m["sort.Slice"] = func(fr *frame, a []value) value { sortSlice(fr, a[0], a[1]); return nil }
	m["sort.SliceStable"] = m["sort.Slice"]
	m["sort.Strings"] = func(fr *frame, a []value) value {
		xs := a[0].([]value)
		for i := 1; i < len(xs); i++ {
			for j := i; j > 0 && str(xs[j]) < str(xs[j-1]); j-- {
				xs[j], xs[j-1] = xs[j-1], xs[j]
			}
		}
		return nil
	}

	// --- strconv
	m["strconv.ParseFloat"] = func(fr *frame, a []value) value {
		s, ok := a[0].(string)
		if !ok {
			panic(engineError{"strconv.ParseFloat on a symbolic byte string (use verifrt.FloatString)"})
		}
		if ts, ok := fr.i.px.floatStrings[s]; ok {
			// uninterpreted result of the real, table-driven decimal->binary conversion (DESIGN 2.3)
			if fr.decide(ts[1], "parsefloat.err") {
				return tuple{mkFP(ts[0]), fr.mkError("strconv.ParseFloat: parsing error", nil)}
			}
			return tuple{mkFP(ts[0]), iface{}}
		}
		f, err := strconv.ParseFloat(s, cint(fr, a[1], "bitsize"))
		if err != nil {
			return tuple{f, fr.mkError(err.Error(), nil)}
		}
		return tuple{f, iface{}}
	}
	m["maps.clone"] = func(fr *frame, a []value) value {
		src, _ := a[0].(iface)
		om, _ := src.v.(*omap)
		if om == nil {
			return src
		}
		cp := &omap{keyType: om.keyType, index: map[string]int{}}
		for _, e := range om.entries {
			if !e.deleted {
				cp.insert(e.key, copyVal(e.val))
			}
		}
		return iface{t: src.t, v: cp}
	}
	m["internal/stringslite.Clone"] = func(fr *frame, a []value) value { return a[0] }
	m["strings.Clone"] = func(fr *frame, a []value) value { return a[0] }
	m["strconv.Itoa"] = func(fr *frame, a []value) value { return strconv.Itoa(cint(fr, a[0], "itoa")) }
	m["strconv.FormatInt"] = func(fr *frame, a []value) value {
		return strconv.FormatInt(asInt64(fr.concretize(a[0], "formatint")), cint(fr, a[1], "base"))
	}
	m["strconv.FormatFloat"] = func(fr *frame, a []value) value {
		f, ok := a[0].(float64)
		if !ok {
			return "<symfloat>"
		}
		return strconv.FormatFloat(f, a[1].(byte), cint(fr, a[2], "prec"), cint(fr, a[3], "bits"))
	}
	m["strconv.Quote"] = func(fr *frame, a []value) value { return strconv.Quote(str(a[0])) }
	m["strconv.FormatBool"] = func(fr *frame, a []value) value {
		return strconv.FormatBool(fr.concretize(a[0], "formatbool").(bool))
	}

	// --- strings (bytealg-backed in the real library)
	s1 := func(f func(string) string) externalFn {
		return func(fr *frame, a []value) value { return f(str(a[0])) }
	}
	s2b := func(f func(string, string) bool) externalFn {
		return func(fr *frame, a []value) value { return f(str(a[0]), str(a[1])) }
	}
	s2i := func(f func(string, string) int) externalFn {
		return func(fr *frame, a []value) value { return f(str(a[0]), str(a[1])) }
	}
	s2s := func(f func(string, string) string) externalFn {
		return func(fr *frame, a []value) value { return f(str(a[0]), str(a[1])) }
	}
	m["strings.ToLower"] = s1(strings.ToLower)
	m["strings.ToUpper"] = s1(strings.ToUpper)
	m["strings.TrimSpace"] = s1(strings.TrimSpace)
	m["strings.Title"] = s1(strings.Title)
	m["strings.Contains"] = s2b(strings.Contains)
	m["strings.ContainsAny"] = s2b(strings.ContainsAny)
	m["strings.HasPrefix"] = s2b(strings.HasPrefix)
	m["strings.HasSuffix"] = s2b(strings.HasSuffix)
	m["strings.EqualFold"] = s2b(strings.EqualFold)
	m["strings.Index"] = s2i(strings.Index)
	m["strings.LastIndex"] = s2i(strings.LastIndex)
	m["strings.Count"] = s2i(strings.Count)
	m["strings.Compare"] = s2i(strings.Compare)
	m["strings.IndexAny"] = s2i(strings.IndexAny)
	m["strings.TrimPrefix"] = s2s(strings.TrimPrefix)
	m["strings.TrimSuffix"] = s2s(strings.TrimSuffix)
	m["strings.Trim"] = s2s(strings.Trim)
	m["strings.TrimLeft"] = s2s(strings.TrimLeft)
	m["strings.TrimRight"] = s2s(strings.TrimRight)
	m["strings.IndexByte"] = func(fr *frame, a []value) value { return strings.IndexByte(str(a[0]), a[1].(byte)) }
	m["strings.IndexRune"] = func(fr *frame, a []value) value { return strings.IndexRune(str(a[0]), a[1].(rune)) }
	m["strings.ContainsRune"] = func(fr *frame, a []value) value { return strings.ContainsRune(str(a[0]), a[1].(rune)) }
	m["strings.LastIndexByte"] = func(fr *frame, a []value) value { return strings.LastIndexByte(str(a[0]), a[1].(byte)) }
	m["strings.Split"] = func(fr *frame, a []value) value { return valStrs(strings.Split(str(a[0]), str(a[1]))) }
	m["strings.SplitN"] = func(fr *frame, a []value) value {
		return valStrs(strings.SplitN(str(a[0]), str(a[1]), cint(fr, a[2], "n")))
	}
	m["strings.Fields"] = func(fr *frame, a []value) value { return valStrs(strings.Fields(str(a[0]))) }
	m["strings.Join"] = func(fr *frame, a []value) value { return strings.Join(strSlice(a[0]), str(a[1])) }
	m["strings.Repeat"] = func(fr *frame, a []value) value { return strings.Repeat(str(a[0]), cint(fr, a[1], "n")) }
	m["strings.Replace"] = func(fr *frame, a []value) value {
		return strings.Replace(str(a[0]), str(a[1]), str(a[2]), cint(fr, a[3], "n"))
	}
	m["strings.ReplaceAll"] = func(fr *frame, a []value) value {
		return strings.ReplaceAll(str(a[0]), str(a[1]), str(a[2]))
	}
	m["strings.Cut"] = func(fr *frame, a []value) value {
		b, af, ok := strings.Cut(str(a[0]), str(a[1]))
		return tuple{b, af, ok}
	}
	m["strings.CutPrefix"] = func(fr *frame, a []value) value {
		af, ok := strings.CutPrefix(str(a[0]), str(a[1]))
		return tuple{af, ok}
	}
	m["strings.CutSuffix"] = func(fr *frame, a []value) value {
		b, ok := strings.CutSuffix(str(a[0]), str(a[1]))
		return tuple{b, ok}
	}
	m["unicode/utf8.DecodeRuneInString"] = func(fr *frame, a []value) value {
		r, n := utf8.DecodeRuneInString(str(a[0]))
		return tuple{r, n}
	}
	m["unicode/utf8.RuneCountInString"] = func(fr *frame, a []value) value { return utf8.RuneCountInString(str(a[0])) }
	m["unicode/utf8.ValidString"] = func(fr *frame, a []value) value { return utf8.ValidString(str(a[0])) }
	m["unicode.IsUpper"] = func(fr *frame, a []value) value { return unicode.IsUpper(a[0].(rune)) }
	m["unicode.IsLower"] = func(fr *frame, a []value) value { return unicode.IsLower(a[0].(rune)) }
	m["unicode.IsDigit"] = func(fr *frame, a []value) value { return unicode.IsDigit(a[0].(rune)) }
	m["unicode.IsLetter"] = func(fr *frame, a []value) value { return unicode.IsLetter(a[0].(rune)) }
	m["unicode.IsSpace"] = func(fr *frame, a []value) value { return unicode.IsSpace(a[0].(rune)) }
	m["unicode.ToLower"] = func(fr *frame, a []value) value { return unicode.ToLower(a[0].(rune)) }
	m["unicode.ToUpper"] = func(fr *frame, a []value) value { return unicode.ToUpper(a[0].(rune)) }

	// --- strings.Builder (uses unsafe / abi.NoEscape in the real library)
	sbBuf := func(a []value) *value {
		p := a[0].(*value)
		if p == nil {
			panic(runtimePanic{"invalid memory address or nil pointer dereference"})
		}
		return &(*p).(structure)[1]
	}
	sbAppend := func(a []value, bs []value) {
		c := sbBuf(a)
		cur, _ := (*c).([]value)
		*c = append(cur, bs...)
	}
	m["(*strings.Builder).WriteString"] = func(fr *frame, a []value) value {
		bs, ok := strBytes(a[1])
		if !ok {
			panic(engineError{"Builder.WriteString: not a string"})
		}
		sbAppend(a, bs)
		return tuple{len(bs), iface{}}
	}
	m["(*strings.Builder).Write"] = func(fr *frame, a []value) value {
		bs := a[1].([]value)
		sbAppend(a, bs)
		return tuple{len(bs), iface{}}
	}
	m["(*strings.Builder).WriteByte"] = func(fr *frame, a []value) value {
		sbAppend(a, []value{a[1]})
		return iface{}
	}
	m["(*strings.Builder).WriteRune"] = func(fr *frame, a []value) value {
		r := a[1].(rune)
		bs, _ := strBytes(string(r))
		sbAppend(a, bs)
		return tuple{len(bs), iface{}}
	}
	m["(*strings.Builder).String"] = func(fr *frame, a []value) value {
		cur, _ := (*sbBuf(a)).([]value)
		return mkString(cur)
	}
	m["(*strings.Builder).Len"] = func(fr *frame, a []value) value {
		cur, _ := (*sbBuf(a)).([]value)
		return len(cur)
	}
	m["(*strings.Builder).Cap"] = m["(*strings.Builder).Len"]
	m["(*strings.Builder).Reset"] = func(fr *frame, a []value) value { *sbBuf(a) = []value(nil); return nil }
	m["(*strings.Builder).Grow"] = func(fr *frame, a []value) value { return nil }

	// --- internal/bytealg & friends reached from interpreted std code
	m["internal/bytealg.IndexByteString"] = func(fr *frame, a []value) value { return strings.IndexByte(str(a[0]), a[1].(byte)) }
	m["internal/bytealg.CountString"] = func(fr *frame, a []value) value { return strings.Count(str(a[0]), string([]byte{a[1].(byte)})) }
	m["internal/stringslite.HasPrefix"] = s2b(strings.HasPrefix)
	m["internal/stringslite.HasSuffix"] = s2b(strings.HasSuffix)
	m["internal/stringslite.Index"] = s2i(strings.Index)
	m["internal/stringslite.IndexByte"] = func(fr *frame, a []value) value { return strings.IndexByte(str(a[0]), a[1].(byte)) }

	_ = os.Getenv
	return m
}

func findOnceDone(st structure) *value {
	for i := range st {
		if inner, ok := st[i].(structure); ok {
			for j := range inner {
				if _, ok := inner[j].(uint32); ok {
					return &inner[j]
				}
			}
		}
		if _, ok := st[i].(uint32); ok {
			return &st[i]
		}
	}
	return nil
}

// NewEnv creates the shared environment.
func NewEnv(prog *ssa.Program, rtPkg string, stubPkgs []string) *Env {
	e := &Env{Prog: prog, RtPkgPath: rtPkg, StubPkgs: stubPkgs, MaxSteps: 20_000_000, Unwind: 100000,
		TimeoutMs: 60000, Workers: 1, SampleCap: 16, built: map[*ssa.Package]bool{}}
	e.intrinsics = DefaultIntrinsics()
	return e
}

// AddIntrinsicZero makes the named function return zero values.
func (e *Env) AddIntrinsicZero(name string) {
	e.intrinsics[name] = nil
	delete(e.intrinsics, name)
	e.intrinsics[name] = func(fr *frame, args []value) value {
		return zeroResults(fr.fn)
	}
}

// atomicIntrinsic implements sync/atomic's assembly functions on the boxed representation
// (single-threaded execution: plain loads and stores).
func atomicIntrinsic(fn *ssa.Function) externalFn {
	name := fn.Name()
	if fn.Signature.Recv() != nil {
		// (*atomic.Value) methods use unsafe word tricks
		recv := fn.Signature.Recv().Type().String()
		if !strings.HasSuffix(recv, "sync/atomic.Value") {
			return nil
		}
		cell := func(a []value) *value {
			p := a[0].(*value)
			if p == nil {
				panic(runtimePanic{"invalid memory address or nil pointer dereference"})
			}
			return &(*p).(structure)[0]
		}
		switch name {
		case "Load":
			return func(fr *frame, a []value) value { return *cell(a) }
		case "Store":
			return func(fr *frame, a []value) value {
				if a[1].(iface).t == nil {
					panic(targetPanic{iface{t: types.Typ[types.String], v: "sync/atomic: store of nil value into Value"}})
				}
				*cell(a) = a[1]
				return nil
			}
		case "Swap":
			return func(fr *frame, a []value) value { c := cell(a); old := *c; *c = a[1]; return old }
		case "CompareAndSwap":
			return func(fr *frame, a []value) value {
				c := cell(a)
				if r, ok := equals(fr, types.NewInterfaceType(nil, nil), *c, a[1]).(bool); ok && r {
					*c = a[2]
					return true
				}
				return false
			}
		}
		return nil
	}
	addr := func(a []value) *value {
		p := a[0].(*value)
		if p == nil {
			panic(runtimePanic{"invalid memory address or nil pointer dereference"})
		}
		return p
	}
	switch {
	case strings.HasPrefix(name, "Load"):
		return func(fr *frame, a []value) value {
			v := *addr(a)
			if name == "LoadPointer" {
				if p, ok := v.(*value); ok {
					return unsafe.Pointer(p)
				}
			}
			return v
		}
	case strings.HasPrefix(name, "Store"):
		return func(fr *frame, a []value) value { *addr(a) = a[1]; return nil }
	case strings.HasPrefix(name, "Swap"):
		return func(fr *frame, a []value) value { p := addr(a); old := *p; *p = a[1]; return old }
	case strings.HasPrefix(name, "CompareAndSwap"):
		return func(fr *frame, a []value) value {
			p := addr(a)
			cur, old := *p, a[1]
			if cp, ok := cur.(*value); ok {
				cur = unsafe.Pointer(cp)
			}
			eq := false
			switch c := cur.(type) {
			case unsafe.Pointer:
				o, _ := old.(unsafe.Pointer)
				eq = c == o
			default:
				r, ok := binop(fr, token.EQL, fn.Signature.Params().At(1).Type(), cur, old).(bool)
				if !ok {
					panic(engineError{"atomic CompareAndSwap on symbolic value"})
				}
				eq = r
			}
			if eq {
				*p = a[2]
			}
			return eq
		}
	case strings.HasPrefix(name, "Add"):
		return func(fr *frame, a []value) value {
			p := addr(a)
			*p = binop(fr, token.ADD, fn.Signature.Params().At(1).Type(), *p, a[1])
			return *p
		}
	case strings.HasPrefix(name, "And"):
		return func(fr *frame, a []value) value {
			p := addr(a)
			old := *p
			*p = binop(fr, token.AND, fn.Signature.Params().At(1).Type(), *p, a[1])
			return old
		}
	case strings.HasPrefix(name, "Or"):
		return func(fr *frame, a []value) value {
			p := addr(a)
			old := *p
			*p = binop(fr, token.OR, fn.Signature.Params().At(1).Type(), *p, a[1])
			return old
		}
	}
	return nil
}
