// Package zz_verifrt is the harness runtime. Under the symbolic engine (/verif/engine) every
// function here is intercepted; compiled natively (go test -overlay) it replays one concrete model.
package zz_verifrt

import (
	"encoding/json"
	"fmt"
	"math"
	"os"
	"reflect"
	"strconv"
	"strings"
)

type assumeFailed struct{}
type assertFailed struct{ id string }
type stopped struct{}

// Result of one native run.
type Result struct {
	Harness       string            `json:"harness"`
	FailedAsserts []string          `json:"failed_asserts"`
	AssumeFailed  bool              `json:"assume_failed"`
	Panic         string            `json:"panic,omitempty"`
	Observes      map[string]string `json:"observes"`
	MissingInputs []string          `json:"missing_inputs,omitempty"`
	NoPanicID     string            `json:"no_panic_id,omitempty"`
}

var (
	model     map[string]string
	nameCount map[string]int
	cur       *Result
)

func uniqueName(name string) string {
	n := nameCount[name]
	nameCount[name] = n + 1
	if n == 0 {
		return name
	}
	return fmt.Sprintf("%s#%d", name, n)
}

func lookup(name string) (string, bool) {
	un := uniqueName(name)
	v, ok := model[un]
	if !ok && cur != nil {
		cur.MissingInputs = append(cur.MissingInputs, un)
	}
	return v, ok
}

func Native() bool { return true }

func AnyBool(name string) bool {
	v, _ := lookup(name)
	return v == "true"
}

func anyI(name string) int64 {
	v, ok := lookup(name)
	if !ok {
		return 0
	}
	i, err := strconv.ParseInt(v, 10, 64)
	if err != nil {
		u, _ := strconv.ParseUint(v, 10, 64)
		return int64(u)
	}
	return i
}

func AnyInt(name string, bits int) int       { return int(anyI(name)) }
func AnyInt32(name string, bits int) int32   { return int32(anyI(name)) }
func AnyInt64(name string, bits int) int64   { return anyI(name) }
func AnyUint64(name string, bits int) uint64 { return uint64(anyI(name)) }
func AnyByte(name string) byte               { return byte(anyI(name)) }

// AnyFloatInt is an integer-valued float64 with |v| < 2^bits.
func AnyFloatInt(name string, bits int) float64 { return float64(anyI(name)) }

// AnyFloatNat is an integer-valued float64 with 0 <= v < 2^bits.
func AnyFloatNat(name string, bits int) float64 { return float64(anyI(name)) }

// AnyFloat64 is any IEEE double (NaN, Inf, subnormals included).
func AnyFloat64(name string) float64 {
	v, ok := lookup(name)
	if !ok {
		return 0
	}
	u, _ := strconv.ParseUint(strings.TrimPrefix(v, "0x"), 16, 64)
	return math.Float64frombits(u)
}

func Choose(name string, n int) int {
	v, ok := lookup(name)
	if !ok {
		return 0
	}
	i, _ := strconv.Atoi(v)
	return i
}

// Bound returns the quick- or thorough-tier value of a harness size bound.
func Bound(name string, quick, thorough int) int {
	v, ok := lookup("bound:" + name)
	if !ok {
		return quick
	}
	i, _ := strconv.Atoi(v)
	return i
}

func Fault(site string) bool {
	v, ok := lookup("fault:" + site)
	return ok && (v == "1" || v == "true")
}

func Assume(cond bool) {
	if !cond {
		panic(assumeFailed{})
	}
}

func Assert(cond bool, id string) {
	if !cond {
		cur.FailedAsserts = append(cur.FailedAsserts, id)
		panic(assertFailed{id})
	}
}

func Unreachable(id string)  { Assert(false, id) }
func Stop()                  { panic(stopped{}) }
func NoPanic(id string)      { cur.NoPanicID = id }
func SetUnwind(n int)        {}
func SetMaxFaults(n int)     {}
func SetMaxSteps(n int)      {}
func OpaqueNonlinear(b bool) {}

func render(v reflect.Value) string {
	if !v.IsValid() {
		return "<nil>"
	}
	switch v.Kind() {
	case reflect.Bool:
		return fmt.Sprintf("%v", v.Bool())
	case reflect.Int, reflect.Int8, reflect.Int16, reflect.Int32, reflect.Int64:
		return fmt.Sprintf("%d", v.Int())
	case reflect.Uint, reflect.Uint8, reflect.Uint16, reflect.Uint32, reflect.Uint64, reflect.Uintptr:
		return fmt.Sprintf("%d", v.Uint())
	case reflect.Float32, reflect.Float64:
		f := v.Float()
		if f != f {
			return "NaN"
		}
		return fmt.Sprintf("0x%016x", math.Float64bits(f))
	case reflect.String:
		return fmt.Sprintf("%q", v.String())
	case reflect.Slice, reflect.Array:
		parts := make([]string, v.Len())
		for i := range parts {
			parts[i] = render(v.Index(i))
		}
		return "[" + strings.Join(parts, " ") + "]"
	case reflect.Struct:
		parts := make([]string, v.NumField())
		for i := range parts {
			parts[i] = render(v.Field(i))
		}
		return "{" + strings.Join(parts, " ") + "}"
	case reflect.Interface:
		if v.IsNil() {
			return "<nil>"
		}
		return render(v.Elem())
	case reflect.Ptr:
		if v.IsNil() {
			return "<nilptr>"
		}
		return "<ptr>"
	}
	return "<" + v.Kind().String() + ">"
}

// Observe records a value that the engine predicts under the same model (translator validation).
func Observe(name string, v any) {
	cur.Observes[uniqueName("obs:"+name)] = render(reflect.ValueOf(v))
}

// RunNative executes harness f under model m.
func RunNative(name string, f func(), m map[string]string) (res Result) {
	model = m
	nameCount = map[string]int{}
	res = Result{Harness: name, Observes: map[string]string{}}
	cur = &res
	defer func() {
		if r := recover(); r != nil {
			switch r.(type) {
			case assumeFailed:
				res.AssumeFailed = true
			case assertFailed, stopped:
			default:
				res.Panic = fmt.Sprintf("%v", r)
			}
		}
	}()
	f()
	return
}

// Job is one replay request.
type Job struct {
	Harness string            `json:"harness"`
	Model   map[string]string `json:"model"`
}

// Main runs the jobs in $VERIF_JOBS (JSON list) against the table of harnesses and writes
// results to $VERIF_OUT.
func Main(table map[string]func()) error {
	data, err := os.ReadFile(os.Getenv("VERIF_JOBS"))
	if err != nil {
		return err
	}
	var jobs []Job
	if err := json.Unmarshal(data, &jobs); err != nil {
		return err
	}
	var out []Result
	for _, j := range jobs {
		f := table[j.Harness]
		if f == nil {
			return fmt.Errorf("unknown harness %s", j.Harness)
		}
		out = append(out, RunNative(j.Harness, f, j.Model))
	}
	b, _ := json.MarshalIndent(out, "", " ")
	return os.WriteFile(os.Getenv("VERIF_OUT"), b, 0o644)
}

// AnyString is a string of n arbitrary bytes.
func AnyString(name string, n int) string {
	b := make([]byte, n)
	for i := range b {
		b[i] = byte(anyI(fmt.Sprintf("%s[%d]", name, i)))
	}
	return string(b)
}

// FloatString is a string denoting an arbitrary result of strconv.ParseFloat(s, 64): under the
// engine the (value, error) pair is symbolic, constrained only by the documented contract; natively
// it is a string that parses to exactly the model's pair.
func FloatString(name string) string {
	f := AnyFloat64(name + ".f")
	isErr := AnyBool(name + ".err")
	if isErr {
		switch {
		case math.IsInf(f, 1):
			return "1e999"
		case math.IsInf(f, -1):
			return "-1e999"
		}
		return "x"
	}
	return strconv.FormatFloat(f, 'g', -1, 64)
}

// SkipCalls: under the engine, calls to the named function (full go/ssa name, e.g.
// "github.com/x/y/pkg.Func") return zero values without executing; the harness then supplies that
// function's effect itself from symbolic inputs constrained by the function's contract. Natively the
// function runs and the harness overwrites its effect with the model's values.
func SkipCalls(fn string) {}

// TypeName is the unqualified name of x's dynamic type ("mergeFromPatch", "Pod", ...).
func TypeName(x any) string {
	if x == nil {
		return "<nil>"
	}
	n := fmt.Sprintf("%T", x)
	if i := strings.LastIndex(n, "."); i >= 0 {
		n = n[i+1:]
	}
	return n
}

// Cover is a reachability witness: under the engine the run must contain a feasible path on which
// cond can hold (otherwise the check is reported as vacuous); natively a no-op.
func Cover(cond bool, id string) {}
