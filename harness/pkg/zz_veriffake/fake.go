// Package zz_veriffake is an in-memory Kubernetes API store used by the binder-side harnesses.
// It is executed by the symbolic engine like any other Go code; every call consults
// verifrt.Fault(site) first, so the failure schedule of the API server is a symbolic input.
package zz_veriffake

import (
	"context"
	"fmt"
	"sort"
	"strconv"
	"strings"

	v1 "k8s.io/api/core/v1"
	kerrors "k8s.io/apimachinery/pkg/api/errors"
	metav1 "k8s.io/apimachinery/pkg/apis/meta/v1"
	"k8s.io/apimachinery/pkg/runtime/schema"
	"k8s.io/apimachinery/pkg/types"
	"k8s.io/apimachinery/pkg/watch"
	"sigs.k8s.io/controller-runtime/pkg/client"

	schedv1 "k8s.io/api/scheduling/v1"

	schedulingv1alpha2 "github.com/NVIDIA/KAI-scheduler/pkg/apis/scheduling/v1alpha2"
	schedulingv2 "github.com/NVIDIA/KAI-scheduler/pkg/apis/scheduling/v2"
	schedulingv2alpha2 "github.com/NVIDIA/KAI-scheduler/pkg/apis/scheduling/v2alpha2"
	vr "github.com/NVIDIA/KAI-scheduler/pkg/zz_verifrt"
)

// Store is the API server's content.
type Store struct {
	Pods            map[string]*v1.Pod
	Nodes           map[string]*v1.Node
	BindRequests    map[string]*schedulingv1alpha2.BindRequest
	ConfigMaps      map[string]*v1.ConfigMap
	Queues          []*schedulingv2.Queue
	PodGroups       []*schedulingv2alpha2.PodGroup
	PriorityClasses map[string]*schedv1.PriorityClass
	Calls           []string // every API call, in order
	Writes          []string // mutating calls only
	Faulted         []string // calls that were made to fail
	FaultsOn        bool
	CrashesOn       bool // a call may be the last thing the process does (see Crashed)
	Crashed         bool
	WatchFailures   int // watches that did not deliver the reservation pod's GPU index
}

// CrashPanic is what every API call raises once the process has "died": the code under test unwinds
// (its deferred handlers run and die on their first API call too) up to the harness, which then
// starts a new process (fresh reconciler) over the same store.
type CrashPanic struct{}

func NewStore() *Store {
	return &Store{Pods: map[string]*v1.Pod{}, Nodes: map[string]*v1.Node{}, BindRequests: map[string]*schedulingv1alpha2.BindRequest{},
		ConfigMaps: map[string]*v1.ConfigMap{}, PriorityClasses: map[string]*schedv1.PriorityClass{}}
}

func key(ns, name string) string { return ns + "/" + name }

type apiError struct{ msg string }

func (e *apiError) Error() string { return e.msg }

func (s *Store) call(site string, write bool) error {
	if s.Crashed {
		panic(CrashPanic{})
	}
	s.Calls = append(s.Calls, site)
	if write {
		s.Writes = append(s.Writes, site)
	}
	if s.FaultsOn && vr.Fault(site) {
		s.Faulted = append(s.Faulted, site)
		if strings.HasPrefix(site, "get-") && vr.AnyBool("notfound:"+site) {
			// a read that fails with NotFound (lagging cache, concurrent delete) rather than a transport error
			return notFound(strings.TrimPrefix(site, "get-")+"s", "injected")
		}
		return &apiError{"injected API failure at " + site}
	}
	if s.CrashesOn && vr.Fault("crash-before-"+site) {
		// the process dies before this call reaches the API server
		s.Crashed = true
		panic(CrashPanic{})
	}
	return nil
}

// HasFaulted reports whether a call at the given site was made to fail.
func (s *Store) HasFaulted(site string) bool {
	for _, f := range s.Faulted {
		if f == site {
			return true
		}
	}
	return false
}

// Client implements the subset of client.Client the binder uses; other methods panic (nil embed).
type Client struct {
	client.Client
	S *Store
}

func notFound(kind, name string) error {
	return kerrors.NewNotFound(schema.GroupResource{Resource: kind}, name)
}

func (c *Client) Get(ctx context.Context, k client.ObjectKey, obj client.Object, opts ...client.GetOption) error {
	switch o := obj.(type) {
	case *schedulingv1alpha2.BindRequest:
		if err := c.S.call("get-bindrequest", false); err != nil {
			return err
		}
		st, ok := c.S.BindRequests[key(k.Namespace, k.Name)]
		if !ok {
			return notFound("bindrequests", k.Name)
		}
		st.DeepCopyInto(o)
	case *v1.Pod:
		if err := c.S.call("get-pod", false); err != nil {
			return err
		}
		st, ok := c.S.Pods[key(k.Namespace, k.Name)]
		if !ok {
			return notFound("pods", k.Name)
		}
		st.DeepCopyInto(o)
	case *v1.Node:
		if err := c.S.call("get-node", false); err != nil {
			return err
		}
		st, ok := c.S.Nodes[k.Name]
		if !ok {
			return notFound("nodes", k.Name)
		}
		st.DeepCopyInto(o)
	case *v1.ConfigMap:
		if err := c.S.call("get-configmap", false); err != nil {
			return err
		}
		st, ok := c.S.ConfigMaps[key(k.Namespace, k.Name)]
		if !ok {
			return notFound("configmaps", k.Name)
		}
		st.DeepCopyInto(o)
	case *schedulingv2alpha2.PodGroup:
		if err := c.S.call("get-podgroup", false); err != nil {
			return err
		}
		for _, pg := range c.S.PodGroups {
			if pg.Namespace == k.Namespace && pg.Name == k.Name {
				pg.DeepCopyInto(o)
				return nil
			}
		}
		return notFound("podgroups", k.Name)
	case *schedv1.PriorityClass:
		if err := c.S.call("get-priorityclass", false); err != nil {
			return err
		}
		st, ok := c.S.PriorityClasses[k.Name]
		if !ok {
			return notFound("priorityclasses", k.Name)
		}
		st.DeepCopyInto(o)
	default:
		panic(fmt.Sprintf("zz_veriffake: Get of unsupported type %T", obj))
	}
	return nil
}

// List supports the two indexed lists of the queue controller: child queues by parent, pod groups
// by queue (the field selector value of client.MatchingFields is honoured like the real index).
func (c *Client) List(ctx context.Context, list client.ObjectList, opts ...client.ListOption) error {
	want := ""
	for _, o := range opts {
		if mf, ok := o.(client.MatchingFields); ok {
			for _, v := range mf {
				want = v
			}
		}
	}
	switch l := list.(type) {
	case *v1.PodList:
		if err := c.S.call("list-pods", false); err != nil {
			return err
		}
		keys := make([]string, 0, len(c.S.Pods))
		for k := range c.S.Pods {
			keys = append(keys, k)
		}
		sort.Strings(keys)
		for _, k := range keys {
			if podMatches(c.S.Pods[k], opts) {
				l.Items = append(l.Items, *c.S.Pods[k].DeepCopy())
			}
		}
	case *schedulingv2.QueueList:
		if err := c.S.call("list-queues", false); err != nil {
			return err
		}
		for _, q := range c.S.Queues {
			if q.Spec.ParentQueue == want {
				l.Items = append(l.Items, *q.DeepCopy())
			}
		}
	case *schedulingv2alpha2.PodGroupList:
		if err := c.S.call("list-podgroups", false); err != nil {
			return err
		}
		for _, pg := range c.S.PodGroups {
			if pg.Spec.Queue == want {
				l.Items = append(l.Items, *pg.DeepCopy())
			}
		}
	case *schedv1.PriorityClassList:
		if err := c.S.call("list-priorityclasses", false); err != nil {
			return err
		}
		names := make([]string, 0, len(c.S.PriorityClasses))
		for n := range c.S.PriorityClasses {
			names = append(names, n)
		}
		sort.Strings(names)
		for _, n := range names {
			l.Items = append(l.Items, *c.S.PriorityClasses[n].DeepCopy())
		}
	default:
		panic(fmt.Sprintf("zz_veriffake: List of unsupported type %T", list))
	}
	return nil
}

func (c *Client) Delete(ctx context.Context, obj client.Object, opts ...client.DeleteOption) error {
	switch o := obj.(type) {
	case *schedulingv1alpha2.BindRequest:
		if err := c.S.call("delete-bindrequest", true); err != nil {
			return err
		}
		delete(c.S.BindRequests, key(o.Namespace, o.Name))
	case *v1.Pod:
		if err := c.S.call("delete-pod", true); err != nil {
			return err
		}
		if _, ok := c.S.Pods[key(o.Namespace, o.Name)]; !ok {
			return notFound("pods", o.Name)
		}
		delete(c.S.Pods, key(o.Namespace, o.Name))
	case *v1.ConfigMap:
		if err := c.S.call("delete-configmap", true); err != nil {
			return err
		}
		if _, ok := c.S.ConfigMaps[key(o.Namespace, o.Name)]; !ok {
			return notFound("configmaps", o.Name)
		}
		delete(c.S.ConfigMaps, key(o.Namespace, o.Name))
	default:
		panic(fmt.Sprintf("zz_veriffake: Delete of unsupported type %T", obj))
	}
	return nil
}

// Patch. A MergeFrom patch carries the difference between the caller's earlier copy and its
// mutated object; the binder reads, mutates and patches within one reconcile and nobody else writes,
// so the result is the caller's labels/annotations (pods) or data/owners (config maps). A raw patch
// is interpreted from its real bytes (JSON patch "remove" on label paths, JSON merge patch on
// metadata.labels/annotations). As with the real client, the stored object is decoded back into the
// caller's object on success.
func (c *Client) Patch(ctx context.Context, obj client.Object, patch client.Patch, opts ...client.PatchOption) error {
	raw := vr.TypeName(patch) != "mergeFromPatch"
	switch o := obj.(type) {
	case *v1.Pod:
		if err := c.S.call("patch-pod", true); err != nil {
			return err
		}
		st, ok := c.S.Pods[key(o.Namespace, o.Name)]
		if !ok {
			return notFound("pods", o.Name)
		}
		if raw {
			data, _ := patch.Data(obj)
			if err := applyRawMetaPatch(&st.ObjectMeta, patch.Type(), data); err != nil {
				return err
			}
		} else {
			st.Labels = copyMap(o.Labels)
			st.Annotations = copyMap(o.Annotations)
		}
		st.DeepCopyInto(o)
	case *v1.ConfigMap:
		if err := c.S.call("patch-configmap", true); err != nil {
			return err
		}
		st, ok := c.S.ConfigMaps[key(o.Namespace, o.Name)]
		if !ok {
			return notFound("configmaps", o.Name)
		}
		if raw {
			panic("zz_veriffake: raw patch of a ConfigMap is not supported")
		}
		o.DeepCopyInto(st)
	default:
		panic(fmt.Sprintf("zz_veriffake: Patch of unsupported type %T", obj))
	}
	return nil
}

func copyMap(m map[string]string) map[string]string {
	if m == nil {
		return nil
	}
	out := make(map[string]string, len(m))
	for k, v := range m {
		out[k] = v
	}
	return out
}

// applyRawMetaPatch interprets the two kinds of literal patches the binder builds.
func applyRawMetaPatch(meta *metav1.ObjectMeta, pt types.PatchType, data []byte) error {
	doc, rest := parseJSON(string(data))
	if rest != "" {
		panic("zz_veriffake: trailing bytes in patch: " + string(data))
	}
	switch pt {
	case types.JSONPatchType:
		ops, ok := doc.([]any)
		if !ok {
			if doc == nil {
				return nil // "null": an empty operation list
			}
			panic("zz_veriffake: JSON patch is not a list: " + string(data))
		}
		// a JSON patch is atomic: validate every operation before applying any
		var keys []string
		for _, op := range ops {
			m := op.(map[string]any)
			if m["op"] != "remove" {
				panic("zz_veriffake: unsupported JSON patch op in " + string(data))
			}
			path, _ := m["path"].(string)
			const prefix = "/metadata/labels/"
			if !strings.HasPrefix(path, prefix) {
				panic("zz_veriffake: unsupported JSON patch path " + path)
			}
			k := strings.ReplaceAll(strings.ReplaceAll(path[len(prefix):], "~1", "/"), "~0", "~")
			if _, found := meta.Labels[k]; !found {
				return &apiError{"the server rejected our request: remove operation does not apply: path " + path + " not found"}
			}
			keys = append(keys, k)
		}
		for _, k := range keys {
			delete(meta.Labels, k)
		}
	case types.MergePatchType:
		top, ok := doc.(map[string]any)
		if !ok {
			panic("zz_veriffake: merge patch is not an object: " + string(data))
		}
		for tk, tv := range top {
			if tk != "metadata" {
				panic("zz_veriffake: unsupported merge patch key " + tk)
			}
			for mk, mv := range tv.(map[string]any) {
				var target *map[string]string
				switch mk {
				case "annotations":
					target = &meta.Annotations
				case "labels":
					target = &meta.Labels
				default:
					panic("zz_veriffake: unsupported merge patch key metadata." + mk)
				}
				if *target == nil {
					*target = map[string]string{}
				}
				for k, v := range mv.(map[string]any) {
					if v == nil {
						delete(*target, k)
					} else {
						(*target)[k] = v.(string)
					}
				}
			}
		}
	default:
		panic("zz_veriffake: unsupported raw patch type " + string(pt))
	}
	return nil
}

// parseJSON is a minimal JSON reader (objects, arrays, strings, null, bare tokens as strings).
func parseJSON(s string) (any, string) {
	s = strings.TrimLeft(s, " \t\n")
	if s == "" {
		panic("zz_veriffake: empty JSON")
	}
	switch s[0] {
	case '{':
		out := map[string]any{}
		s = strings.TrimLeft(s[1:], " ")
		if s[0] == '}' {
			return out, s[1:]
		}
		for {
			k, rest := parseJSON(s)
			rest = strings.TrimLeft(rest, " ")
			if rest[0] != ':' {
				panic("zz_veriffake: bad JSON object")
			}
			v, rest2 := parseJSON(rest[1:])
			out[k.(string)] = v
			rest2 = strings.TrimLeft(rest2, " ")
			if rest2[0] == ',' {
				s = rest2[1:]
				continue
			}
			if rest2[0] != '}' {
				panic("zz_veriffake: bad JSON object end")
			}
			return out, rest2[1:]
		}
	case '[':
		out := []any{}
		s = strings.TrimLeft(s[1:], " ")
		if s[0] == ']' {
			return out, s[1:]
		}
		for {
			v, rest := parseJSON(s)
			out = append(out, v)
			rest = strings.TrimLeft(rest, " ")
			if rest[0] == ',' {
				s = rest[1:]
				continue
			}
			if rest[0] != ']' {
				panic("zz_veriffake: bad JSON array end")
			}
			return out, rest[1:]
		}
	case '"':
		var b []byte
		i := 1
		for s[i] != '"' {
			if s[i] == '\\' {
				i++
				switch s[i] {
				case 'u':
					v, err := strconv.ParseUint(s[i+1:i+5], 16, 32)
					if err != nil || v > 127 {
						panic("zz_veriffake: unsupported \\u escape")
					}
					b = append(b, byte(v))
					i += 4
				case 'n':
					b = append(b, '\n')
				case 't':
					b = append(b, '\t')
				default:
					b = append(b, s[i])
				}
			} else {
				b = append(b, s[i])
			}
			i++
		}
		return string(b), s[i+1:]
	}
	if strings.HasPrefix(s, "null") {
		return nil, s[4:]
	}
	i := 0
	for i < len(s) && s[i] != ',' && s[i] != '}' && s[i] != ']' && s[i] != ' ' {
		i++
	}
	return s[:i], s[i:]
}

func (c *Client) Create(ctx context.Context, obj client.Object, opts ...client.CreateOption) error {
	switch o := obj.(type) {
	case *v1.ConfigMap:
		if err := c.S.call("create-configmap", true); err != nil {
			return err
		}
		if _, ok := c.S.ConfigMaps[key(o.Namespace, o.Name)]; ok {
			return kerrors.NewAlreadyExists(schema.GroupResource{Resource: "configmaps"}, o.Name)
		}
		c.S.ConfigMaps[key(o.Namespace, o.Name)] = o.DeepCopy()
	case *v1.Pod:
		if err := c.S.call("create-pod", true); err != nil {
			return err
		}
		if _, ok := c.S.Pods[key(o.Namespace, o.Name)]; ok {
			return kerrors.NewAlreadyExists(schema.GroupResource{Resource: "pods"}, o.Name)
		}
		c.S.Pods[key(o.Namespace, o.Name)] = o.DeepCopy()
	default:
		panic(fmt.Sprintf("zz_veriffake: Create of unsupported type %T", obj))
	}
	return nil
}

func (c *Client) Status() client.SubResourceWriter { return &statusWriter{c: c} }

func (c *Client) SubResource(name string) client.SubResourceClient {
	return &subResource{c: c, name: name}
}

type statusWriter struct {
	client.SubResourceWriter
	c *Client
}

// Patch on the status sub-resource: only the Status of the caller's object is stored.
func (w *statusWriter) Patch(ctx context.Context, obj client.Object, patch client.Patch, opts ...client.SubResourcePatchOption) error {
	switch o := obj.(type) {
	case *schedulingv1alpha2.BindRequest:
		if err := w.c.S.call("patch-bindrequest-status", true); err != nil {
			return err
		}
		st, ok := w.c.S.BindRequests[key(o.Namespace, o.Name)]
		if !ok {
			return notFound("bindrequests", o.Name)
		}
		o.Status.DeepCopyInto(&st.Status)
	case *schedulingv2alpha2.PodGroup:
		if err := w.c.S.call("patch-podgroup-status", true); err != nil {
			return err
		}
		for _, pg := range w.c.S.PodGroups {
			if pg.Namespace == o.Namespace && pg.Name == o.Name {
				o.Status.DeepCopyInto(&pg.Status)
				return nil
			}
		}
		return notFound("podgroups", o.Name)
	case *v1.Pod:
		if err := w.c.S.call("patch-pod-status", true); err != nil {
			return err
		}
		st, ok := w.c.S.Pods[key(o.Namespace, o.Name)]
		if !ok {
			return notFound("pods", o.Name)
		}
		o.Status.DeepCopyInto(&st.Status)
	default:
		panic(fmt.Sprintf("zz_veriffake: Status().Patch of unsupported type %T", obj))
	}
	return nil
}

type subResource struct {
	client.SubResourceClient
	c    *Client
	name string
}

// Create on pods/binding binds the pod.
func (s *subResource) Create(ctx context.Context, obj client.Object, sub client.Object, opts ...client.SubResourceCreateOption) error {
	pod, ok1 := obj.(*v1.Pod)
	b, ok2 := sub.(*v1.Binding)
	if s.name != "binding" || !ok1 || !ok2 {
		panic(fmt.Sprintf("zz_veriffake: SubResource(%q).Create of unsupported types %T %T", s.name, obj, sub))
	}
	if err := s.c.S.call("create-binding", true); err != nil {
		return err
	}
	st, ok := s.c.S.Pods[key(pod.Namespace, pod.Name)]
	if !ok {
		return notFound("pods", pod.Name)
	}
	if st.Spec.NodeName != "" {
		return &apiError{"pod already bound"}
	}
	st.Spec.NodeName = b.Target.Name
	s.c.S.Calls = append(s.c.S.Calls, "BOUND:"+b.Target.Name)
	return nil
}

// podMatches interprets the list options the binder uses (labels, namespace, field selectors on
// spec.nodeName / metadata.name).
func podMatches(p *v1.Pod, opts []client.ListOption) bool {
	for _, o := range opts {
		switch x := o.(type) {
		case client.HasLabels:
			for _, k := range x {
				if _, ok := p.Labels[k]; !ok {
					return false
				}
			}
		case client.MatchingLabels:
			for k, v := range x {
				if p.Labels[k] != v {
					return false
				}
			}
		case client.InNamespace:
			if p.Namespace != string(x) {
				return false
			}
		case client.MatchingFields:
			for k, v := range x {
				switch k {
				case "spec.nodeName":
					if p.Spec.NodeName != v {
						return false
					}
				case "metadata.name":
					if p.Name != v {
						return false
					}
				case "PodGroupToPodsIndexer": // the pod group controller's index: pods by their pod-group-name annotation
					if name, ok := p.Annotations["pod-group-name"]; !ok || name != v {
						return false
					}
				default:
					panic("zz_veriffake: unsupported field selector " + k)
				}
			}
		default:
			panic(fmt.Sprintf("zz_veriffake: unsupported list option %T", o))
		}
	}
	return true
}

// Watch models the kubelet/reservation pod's asynchronous reaction to a newly created reservation
// pod, chosen by the explorer: the pod gets its GPU-index annotation, an error event arrives, the
// channel is closed, or nothing happens until the caller's timeout.
func (c *Client) Watch(ctx context.Context, list client.ObjectList, opts ...client.ListOption) (watch.Interface, error) {
	if err := c.S.call("watch-pods", false); err != nil {
		return nil, err
	}
	w := &watcher{ch: make(chan watch.Event, 8)}
	keys := make([]string, 0, len(c.S.Pods))
	for k := range c.S.Pods {
		keys = append(keys, k)
	}
	sort.Strings(keys)
	var annotated, fresh []*v1.Pod
	for _, k := range keys {
		p := c.S.Pods[k]
		if !podMatches(p, opts) {
			continue
		}
		if p.Annotations["run.ai/reserve_for_gpu_index"] != "" {
			annotated = append(annotated, p)
		} else {
			fresh = append(fresh, p)
		}
	}
	outcome := 0 // a healthy environment annotates the reservation pod
	if c.S.FaultsOn {
		outcome = vr.Choose("watch-outcome", 4)
	}
	if outcome != 0 {
		c.S.WatchFailures++
	}
	// a watch first reports the objects that already match its selector
	for _, p := range annotated {
		w.ch <- watch.Event{Type: watch.Added, Object: p.DeepCopy()}
	}
	switch outcome {
	case 0:
		for _, target := range fresh {
			if target.Annotations == nil {
				target.Annotations = map[string]string{}
			}
			target.Annotations["run.ai/reserve_for_gpu_index"] = "idx-" + target.Labels["runai-gpu-group"]
			w.ch <- watch.Event{Type: watch.Modified, Object: target.DeepCopy()}
		}
	case 1:
		w.ch <- watch.Event{Type: watch.Error, Object: &v1.Pod{}}
	case 2:
		close(w.ch)
	}
	return w, nil
}

type watcher struct{ ch chan watch.Event }

func (w *watcher) Stop()                          {}
func (w *watcher) ResultChan() <-chan watch.Event { return w.ch }
