package controllers

import (
	"context"

	v1 "k8s.io/api/core/v1"
	metav1 "k8s.io/apimachinery/pkg/apis/meta/v1"
	"k8s.io/apimachinery/pkg/runtime"
	"k8s.io/apimachinery/pkg/types"
	"k8s.io/client-go/tools/record"
	ctrl "sigs.k8s.io/controller-runtime"

	schedulingv1alpha2 "github.com/NVIDIA/KAI-scheduler/pkg/apis/scheduling/v1alpha2"
	"github.com/NVIDIA/KAI-scheduler/pkg/scheduler/api/bindrequest_info"
	fake "github.com/NVIDIA/KAI-scheduler/pkg/zz_veriffake"
	vr "github.com/NVIDIA/KAI-scheduler/pkg/zz_verifrt"
)

type c12Binder struct {
	fail   bool
	panics bool // the bind attempt crashes inside the binder instead of returning an error
	binds  int
}

func (b *c12Binder) Bind(ctx context.Context, task *v1.Pod, host *v1.Node, br *schedulingv1alpha2.BindRequest) error {
	b.binds++
	if b.fail && b.panics {
		panic("bind attempt crashed")
	}
	if b.fail {
		return &c12Err{}
	}
	return nil
}
func (b *c12Binder) Rollback(ctx context.Context, task *v1.Pod, host *v1.Node, br *schedulingv1alpha2.BindRequest) error {
	return nil
}

type c12Err struct{}

func (*c12Err) Error() string { return "bind failed" }

func c12Setup(phase string, failed int32, limit *int32) (*BindRequestReconciler, *fake.Store, *c12Binder) {
	st := fake.NewStore()
	st.Pods["ns/p"] = &v1.Pod{ObjectMeta: metav1.ObjectMeta{Name: "p", Namespace: "ns"}}
	st.Nodes["n1"] = &v1.Node{ObjectMeta: metav1.ObjectMeta{Name: "n1"}}
	st.BindRequests["ns/br"] = &schedulingv1alpha2.BindRequest{
		ObjectMeta: metav1.ObjectMeta{Name: "br", Namespace: "ns"},
		Spec:       schedulingv1alpha2.BindRequestSpec{PodName: "p", SelectedNode: "n1", BackoffLimit: limit},
		Status:     schedulingv1alpha2.BindRequestStatus{Phase: phase, FailedAttempts: failed},
	}
	b := &c12Binder{}
	r := NewBindRequestReconciler(&fake.Client{S: st}, nil, &fakeRecorder{}, &ReconcilerParams{}, b, nil)
	return r, st, b
}

type fakeRecorder struct{ record.EventRecorder }

func (*fakeRecorder) Event(object runtime.Object, eventtype, reason, message string) {}
func (*fakeRecorder) Eventf(object runtime.Object, eventtype, reason, messageFmt string, args ...interface{}) {
}

var c12Req = ctrl.Request{NamespacedName: types.NamespacedName{Namespace: "ns", Name: "br"}}

func c12IsFailed(st *fake.Store) bool {
	return bindrequest_info.NewBindRequestInfo(st.BindRequests["ns/br"]).IsFailed()
}

// VerifC12_RetryStep: one reconcile of a BindRequest from an arbitrary stored status, the bind failing.
// The attempt counter must be persisted while below the limit; at or above the limit the request
// must be observably failed for the scheduler (real BindRequestInfo.IsFailed on the stored object).
// BOUND: one pod, one node, one request; failedAttempts in [0, 2^30), backoffLimit nil or in (-2^31, 2^31)
// ASSUME: API calls of this step succeed (faults are C11's subject); stored phase is "", Pending or Failed
func VerifC12_RetryStep() {
	phases := []string{"", schedulingv1alpha2.BindRequestPhasePending, schedulingv1alpha2.BindRequestPhaseFailed}
	phase := phases[vr.Choose("phase", 3)]
	failed := vr.AnyInt32("failedAttempts", 30)
	vr.Assume(failed >= 0)
	var limit *int32
	if vr.AnyBool("hasLimit") {
		l := vr.AnyInt32("backoffLimit", 31)
		limit = &l
	}
	// reachable stored states: Failed phase implies at least one failed attempt was made
	if phase != schedulingv1alpha2.BindRequestPhaseFailed {
		vr.Assume(failed == 0)
	}
	r, st, b := c12Setup(phase, failed, limit)
	b.fail = true
	b.panics = vr.AnyBool("bindPanics") // a failed attempt is a returned error or a recovered panic
	res, err := r.Reconcile(context.Background(), c12Req)
	stored := st.BindRequests["ns/br"]
	vr.Observe("binds", b.binds)
	vr.Observe("storedFailed", stored.Status.FailedAttempts)
	vr.Observe("storedPhase", stored.Status.Phase)
	willRetry := err != nil || res.RequeueAfter > 0 || res.Requeue
	vr.Observe("willRetry", willRetry)

	vr.Assert(b.binds == 1, "C12.step-attempts-bind-once")
	vr.Assert(stored.Status.Phase == schedulingv1alpha2.BindRequestPhaseFailed, "C12.failure-recorded")
	if limit != nil && failed < *limit {
		vr.Assert(stored.Status.FailedAttempts == failed+1, "C12.attempt-count-persisted")
	} else {
		vr.Assert(stored.Status.FailedAttempts == failed, "C12.attempt-count-stable-at-limit")
	}
	// the binder keeps retrying only while the scheduler does not yet see the request as failed
	if willRetry {
		if limit != nil {
			if *limit <= 0 {
				vr.Assert(stored.Status.FailedAttempts <= *limit, "C12.retry-only-within-limit#nonpositive-limit")
			} else if b.panics {
				vr.Assert(stored.Status.FailedAttempts <= *limit, "C12.retry-only-within-limit#bind-panics")
			} else {
				vr.Assert(stored.Status.FailedAttempts <= *limit, "C12.retry-only-within-limit")
			}
		}
	} else {
		vr.Assert(c12IsFailed(st), "C12.gave-up-implies-observably-failed")
	}
}

// VerifC12_RetryLoop: a fresh request with BackoffLimit L whose bind always fails is reconciled
// until the reconciler stops asking for a retry (at most L+3 rounds).
// BOUND: L in 1..4 (quick) / 1..8 (thorough)
func VerifC12_RetryLoop() {
	maxL := vr.Bound("maxLimit", 4, 8)
	l := int32(vr.Choose("limit", maxL) + 1)
	r, st, b := c12Setup("", 0, &l)
	b.fail = true
	rounds := 0
	for ; rounds < int(l)+3; rounds++ {
		res, err := r.Reconcile(context.Background(), c12Req)
		if err == nil && res.RequeueAfter == 0 && !res.Requeue {
			break
		}
	}
	vr.Observe("binds", b.binds)
	vr.Observe("storedFailed", st.BindRequests["ns/br"].Status.FailedAttempts)
	vr.Assert(rounds < int(l)+3, "C12.retries-terminate")
	vr.Assert(b.binds <= int(l)+1, "C12.at-most-limit-retries")
	vr.Assert(c12IsFailed(st), "C12.finally-observably-failed")
}

// VerifC12_Success: a successful bind from any non-terminal stored status ends Succeeded, and a
// Succeeded request is never bound again.
func VerifC12_Success() {
	phases := []string{"", schedulingv1alpha2.BindRequestPhasePending, schedulingv1alpha2.BindRequestPhaseFailed, schedulingv1alpha2.BindRequestPhaseSucceeded}
	phase := phases[vr.Choose("phase", 4)]
	failed := vr.AnyInt32("failedAttempts", 30)
	vr.Assume(failed >= 0)
	l := vr.AnyInt32("backoffLimit", 31)
	r, st, b := c12Setup(phase, failed, &l)
	res, err := r.Reconcile(context.Background(), c12Req)
	stored := st.BindRequests["ns/br"]
	if phase == schedulingv1alpha2.BindRequestPhaseSucceeded {
		vr.Assert(b.binds == 0 && len(st.Writes) == 0, "C12.succeeded-is-noop")
		return
	}
	vr.Assert(b.binds == 1, "C12.success-binds-once")
	vr.Assert(err == nil && res.RequeueAfter == 0, "C12.success-no-retry")
	vr.Assert(stored.Status.Phase == schedulingv1alpha2.BindRequestPhaseSucceeded, "C12.success-recorded")
	vr.Assert(stored.Status.FailedAttempts == failed, "C12.success-keeps-count")
}
