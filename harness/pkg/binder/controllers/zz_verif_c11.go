package controllers

import (
	"context"
	"strings"
	"time"

	v1 "k8s.io/api/core/v1"
	metav1 "k8s.io/apimachinery/pkg/apis/meta/v1"

	schedulingv1alpha2 "github.com/NVIDIA/KAI-scheduler/pkg/apis/scheduling/v1alpha2"
	"github.com/NVIDIA/KAI-scheduler/pkg/binder/binding"
	"github.com/NVIDIA/KAI-scheduler/pkg/binder/binding/resourcereservation"
	"github.com/NVIDIA/KAI-scheduler/pkg/binder/plugins"
	"github.com/NVIDIA/KAI-scheduler/pkg/binder/plugins/gpusharing"
	"github.com/NVIDIA/KAI-scheduler/pkg/common/constants"
	fake "github.com/NVIDIA/KAI-scheduler/pkg/zz_veriffake"
	vr "github.com/NVIDIA/KAI-scheduler/pkg/zz_verifrt"
)

const c11ReservationNs = "kai-resource-reservation"

type c11World struct {
	st       *fake.Store
	rrs      resourcereservation.Interface
	r        *BindRequestReconciler
	fraction bool
	groups   []string
}

// c11Process starts a "binder process": the real reconciler, real Binder, real reservation service
// and real gpusharing binder plugin over the API store (a crash is followed by a new process).
func (w *c11World) c11Process() {
	cl := &fake.Client{S: w.st}
	rrs := resourcereservation.NewService(false, cl, "image", 40*time.Second, c11ReservationNs, "sa", "kai-resource-reservation", "scale-ns", "", nil)
	bp := plugins.New()
	bp.RegisterPlugin(gpusharing.New(cl, false))
	b := binding.NewBinder(cl, rrs, bp)
	w.rrs = rrs
	w.r = NewBindRequestReconciler(cl, nil, &fakeRecorder{}, &ReconcilerParams{}, b, rrs)
}

// newC11World: one pending pod, one node, one BindRequest. A fractional pod looks the way admission
// leaves it (fraction annotation, shared-gpu config map name annotation).
func newC11World(fraction bool, devices int) *c11World {
	st := fake.NewStore()
	pod := &v1.Pod{ObjectMeta: metav1.ObjectMeta{Name: "p", Namespace: "ns", UID: "uid-p", Annotations: map[string]string{}, Labels: map[string]string{}}}
	pod.Spec.Containers = []v1.Container{{Name: "c0"}}
	pod.Status.Phase = v1.PodPending
	br := &schedulingv1alpha2.BindRequest{ObjectMeta: metav1.ObjectMeta{Name: "br", Namespace: "ns"},
		Spec: schedulingv1alpha2.BindRequestSpec{PodName: "p", SelectedNode: "n1", ReceivedResourceType: "Regular"}}
	w := &c11World{st: st, fraction: fraction}
	if fraction {
		pod.Annotations[constants.GpuFraction] = "0.5"
		pod.Annotations["runai/shared-gpu-configmap"] = "p-abcdefg-shared-gpu"
		br.Spec.ReceivedResourceType = "Fraction"
		br.Spec.ReceivedGPU = &schedulingv1alpha2.ReceivedGPU{Count: devices, Portion: "0.50"}
		w.groups = []string{"g0"}
		if devices == 2 {
			pod.Annotations[constants.GpuFractionsNumDevices] = "2"
			w.groups = []string{"g0", "g1"}
		}
		br.Spec.SelectedGPUGroups = w.groups
	}
	st.Pods["ns/p"] = pod
	st.Nodes["n1"] = &v1.Node{ObjectMeta: metav1.ObjectMeta{Name: "n1"}}
	st.BindRequests["ns/br"] = br
	w.c11Process()
	return w
}

func c11Bound(st *fake.Store) int {
	n := 0
	for _, c := range st.Calls {
		if len(c) > 6 && c[:6] == "BOUND:" {
			n++
		}
	}
	return n
}

// reconcile runs one Reconcile of the current process; a crash (fake.CrashPanic escaping the
// reconciler) ends the process and a new one is started over the same store.
func (w *c11World) reconcile() (failed bool, crashed bool) {
	defer func() {
		if r := recover(); r != nil {
			if _, ok := r.(fake.CrashPanic); !ok {
				panic(r)
			}
			crashed = true
			w.st.Crashed = false
			w.c11Process()
		}
	}()
	_, err := w.r.Reconcile(context.Background(), c12Req)
	return err != nil, false
}

func (w *c11World) reservationPods(group string) []*v1.Pod {
	var out []*v1.Pod
	for _, p := range w.st.Pods {
		if p.Namespace == c11ReservationNs && p.Labels[constants.GPUGroup] == group {
			out = append(out, p)
		}
	}
	return out
}

// podGroups: the GPU groups the stored pod is attached to by its labels.
func (w *c11World) podGroups() []string {
	var out []string
	for k, v := range w.st.Pods["ns/p"].Labels {
		if k == constants.GPUGroup {
			out = append(out, v)
		} else if strings.HasPrefix(k, constants.MultiGpuGroupLabelPrefix) {
			out = append(out, v)
		}
	}
	return out
}

func has(xs []string, x string) bool {
	for _, y := range xs {
		if y == x {
			return true
		}
	}
	return false
}

// sideObjectsInPlace: what a bound fractional pod needs to run on the devices chosen for it.
func (w *c11World) sideObjectsInPlace(class string) {
	if !w.fraction {
		return
	}
	attached := w.podGroups()
	var idx []string
	for _, g := range w.groups {
		vr.Assert(has(attached, g), "C11.bound-fraction-pod-carries-every-gpu-group-label"+class)
		rp := w.reservationPods(g)
		vr.Assert(len(rp) == 1, "C11.bound-fraction-pod-has-exactly-one-reservation-pod-per-group"+class)
		if len(rp) == 1 {
			idx = append(idx, rp[0].Annotations["run.ai/reserve_for_gpu_index"])
		}
	}
	vr.Assert(len(attached) == len(w.groups), "C11.bound-fraction-pod-carries-no-other-gpu-group"+class)
	capCM := w.st.ConfigMaps["ns/p-abcdefg-shared-gpu-0"]
	envCM := w.st.ConfigMaps["ns/p-abcdefg-shared-gpu-0-evar"]
	vr.Assert(capCM != nil && envCM != nil, "C11.bound-fraction-pod-has-its-config-maps"+class)
	if capCM != nil && envCM != nil {
		vr.Assert(envCM.Data[constants.NvidiaVisibleDevices] == strings.Join(idx, ","), "C11.visible-devices-are-the-reserved-device-indices"+class)
		vr.Assert(capCM.Data["GPU_PORTION"] == "0.50", "C11.gpu-portion-setting-is-the-received-portion"+class)
	}
	vr.Assert(w.st.Pods["ns/p"].Annotations[constants.ReceivedResourceType] == "Fraction", "C11.received-resource-type-recorded"+class)
}

// c11Check: the all-or-nothing outcome after one reconcile disturbed by API failures / a crash,
// the clean-up by the next sync, and the fault-free retry.
func c11Check(w *c11World, class string) {
	st := w.st
	st.FaultsOn = true
	failed1, crashed := w.reconcile()
	st.FaultsOn, st.CrashesOn = false, false
	pod, br := st.Pods["ns/p"], st.BindRequests["ns/br"]
	vr.Observe("firstErr", failed1)
	vr.Observe("crashed", crashed)
	vr.Observe("boundAfterFirst", pod.Spec.NodeName)
	vr.Observe("phaseAfterFirst", br.Status.Phase)
	vr.Cover(failed1 && pod.Spec.NodeName == "", "C11.cover.failed-attempt-leaves-pod-unbound"+class)
	vr.Assert(c11Bound(st) <= 1, "C11.never-bound-twice"+class)
	if pod.Spec.NodeName != "" {
		vr.Assert(pod.Spec.NodeName == "n1", "C11.bound-only-to-selected-node"+class)
		w.sideObjectsInPlace(class + "@first-attempt")
	} else if !crashed && !st.HasFaulted("get-bindrequest") && !st.HasFaulted("patch-bindrequest-status") {
		vr.Assert(failed1, "C11.unbound-pod-means-the-attempt-reported-an-error"+class)
		vr.Assert(br.Status.Phase == schedulingv1alpha2.BindRequestPhaseFailed, "C11.unbound-pod-request-reported-failed"+class)
	}
	if pod.Spec.NodeName == "" && !crashed && len(st.Faulted)+st.WatchFailures <= 1 {
		// a single disturbance leaves the rollback (label removal, then the node's reservation sync)
		// undisturbed: already now no reservation pod is left without a live consumer
		for _, g := range []string{"g0", "g1"} {
			attached := has(w.podGroups(), g)
			vr.Assert(len(w.reservationPods(g)) == 0 || attached, "C11.failed-attempt-rollback-leaves-no-orphan-reservation-pod"+class)
		}
	}
	if vr.AnyBool("syncBeforeRetry") {
		// the next sync removes what the failed attempt left behind: a reservation pod exists exactly
		// for the groups some live pod is attached to
		if err := w.rrs.Sync(context.Background()); err != nil {
			vr.Assert(false, "C11.fault-free-sync-succeeds"+class)
		}
		for _, g := range []string{"g0", "g1"} {
			n := len(w.reservationPods(g))
			vr.Assert(n <= 1, "C11.at-most-one-reservation-pod-per-group-after-sync"+class)
			_, podAlive := st.Pods["ns/p"]
			attached := podAlive && has(w.podGroups(), g)
			vr.Assert((n == 1) == attached, "C11.reservation-exists-iff-a-live-pod-is-attached-after-sync"+class)
		}
		if pod.Spec.NodeName == "" && !crashed && len(st.Faulted)+st.WatchFailures <= 1 {
			// with a single disturbance (API failure or failed watch) the rollback itself is undisturbed:
			// the failed attempt's GPU group labels are removed, and with them (by the sync above) the
			// reservation pods
			vr.Assert(len(w.podGroups()) == 0, "C11.failed-attempt-rollback-removes-gpu-group-labels"+class)
		}
	}
	// a later fault-free attempt from whatever state was reached completes the binding
	failed2, _ := w.reconcile()
	pod, br = st.Pods["ns/p"], st.BindRequests["ns/br"]
	vr.Observe("secondErr", failed2)
	vr.Assert(c11Bound(st) <= 1, "C11.never-bound-twice-after-retry"+class)
	vr.Assert(pod != nil && pod.Spec.NodeName == "n1", "C11.fault-free-retry-binds-the-pod"+class)
	vr.Assert(!failed2 && br.Status.Phase == schedulingv1alpha2.BindRequestPhaseSucceeded, "C11.fault-free-retry-reports-succeeded"+class)
	w.sideObjectsInPlace(class + "@after-retry")
	// a request that Succeeded is a no-op
	nw := len(st.Writes)
	if failed3, _ := w.reconcile(); failed3 {
		vr.Assert(false, "C11.succeeded-request-reconciles-cleanly"+class)
	}
	vr.Assert(len(st.Writes) == nw && c11Bound(st) == 1, "C11.succeeded-request-is-a-noop"+class)
}

// VerifC11_WholeGpuBind: a BindRequest for a regular (whole-GPU / CPU) pod is reconciled by the
// real BindRequestReconciler + Binder + reservation service (sync) with failing API calls at
// solver-chosen call sites, or a crash before a solver-chosen call; then reconciled again without
// faults.
// BOUND: one pod, one node; at most 1 injected API failure or crash (quick) / 2 (thorough) among all Get/List/Patch/Create(binding) calls of the first reconcile
func VerifC11_WholeGpuBind() {
	vr.SetMaxFaults(vr.Bound("maxFaults", 1, 2))
	w := newC11World(false, 1)
	w.st.CrashesOn = true
	c11Check(w, "")
}

// VerifC11_FractionBind: the same for a fractional pod (one shared GPU group): reservation pod
// creation, the watch for its GPU index (annotated / error event / closed channel / timeout), GPU
// group label, config maps, visible-devices and portion settings, binding; rollback on failure.
// BOUND: one fraction pod with 1 device, one node; at most 1 (quick) / 2 (thorough) injected API failures or a crash; 4 watch outcomes
func VerifC11_FractionBind() {
	vr.SetMaxFaults(vr.Bound("maxFaultsFraction", 1, 2))
	w := newC11World(true, 1)
	w.st.CrashesOn = true
	c11Check(w, "#fraction")
}

// VerifC11_MultiFractionBind: a pod with two fractional devices (two GPU groups; its labels are the
// per-group runai-gpu-group/<group> ones only).
// BOUND: one pod with 2 fractional devices; at most 1 injected API failure (quick) / 2 injected API failures or a crash before a solver-chosen call (thorough)
func VerifC11_MultiFractionBind() {
	vr.SetMaxFaults(vr.Bound("maxFaultsMultiFraction", 1, 2))
	w := newC11World(true, 2)
	w.st.CrashesOn = vr.Bound("crashPointsMultiFraction", 0, 1) == 1
	c11Check(w, "#multi-fraction")
}

// VerifC11_AlreadyBound: a request whose pod is already bound is a no-op apart from its own status.
// BOUND: one pod already bound to the selected node or to another node; no faults
func VerifC11_AlreadyBound() {
	fraction := vr.AnyBool("fraction")
	w := newC11World(fraction, 1)
	nodes := []string{"n1", "n2"}
	w.st.Pods["ns/p"].Spec.NodeName = nodes[vr.Choose("boundTo", 2)]
	before := w.st.Pods["ns/p"].Spec.NodeName
	failed, _ := w.reconcile()
	vr.Assert(!failed, "C11.already-bound-pod-reconciles-cleanly")
	vr.Assert(c11Bound(w.st) == 0 && w.st.Pods["ns/p"].Spec.NodeName == before, "C11.already-bound-pod-is-not-bound-again")
	for _, wr := range w.st.Writes {
		vr.Assert(wr == "patch-bindrequest-status" || wr == "patch-pod-status", "C11.already-bound-pod-is-a-noop")
	}
	vr.Assert(len(w.reservationPods("g0")) == 0 && len(w.st.ConfigMaps) == 0, "C11.already-bound-pod-creates-no-side-objects")
}
