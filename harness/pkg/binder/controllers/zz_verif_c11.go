package controllers

import (
	"context"
	"time"

	v1 "k8s.io/api/core/v1"
	metav1 "k8s.io/apimachinery/pkg/apis/meta/v1"

	schedulingv1alpha2 "github.com/NVIDIA/KAI-scheduler/pkg/apis/scheduling/v1alpha2"
	"github.com/NVIDIA/KAI-scheduler/pkg/binder/binding"
	"github.com/NVIDIA/KAI-scheduler/pkg/binder/binding/resourcereservation"
	"github.com/NVIDIA/KAI-scheduler/pkg/binder/plugins"
	"github.com/NVIDIA/KAI-scheduler/pkg/binder/plugins/gpusharing"
	"github.com/NVIDIA/KAI-scheduler/pkg/common/constants"
	fake "github.com/NVIDIA/KAI-scheduler/pkg/zz_veriffake"
	vr "github.com/NVIDIA/KAI-scheduler/pkg/zz_verifrt"
)

const c11ReservationNs = "kai-resource-reservation"

// c11World: the real reconciler, real Binder, real reservation service and real gpusharing binder
// plugin over the in-memory API store.
func c11World(fraction bool, devices int) (*BindRequestReconciler, *fake.Store) {
	st := fake.NewStore()
	pod := &v1.Pod{ObjectMeta: metav1.ObjectMeta{Name: "p", Namespace: "ns", UID: "uid-p", Annotations: map[string]string{}, Labels: map[string]string{}}}
	pod.Spec.Containers = []v1.Container{{Name: "c0"}}
	br := &schedulingv1alpha2.BindRequest{ObjectMeta: metav1.ObjectMeta{Name: "br", Namespace: "ns"},
		Spec: schedulingv1alpha2.BindRequestSpec{PodName: "p", SelectedNode: "n1", ReceivedResourceType: "Regular"}}
	if fraction {
		pod.Annotations[constants.GpuFraction] = "0.5"
		br.Spec.ReceivedResourceType = "Fraction"
		br.Spec.ReceivedGPU = &schedulingv1alpha2.ReceivedGPU{Count: devices, Portion: "0.50"}
		br.Spec.SelectedGPUGroups = []string{"g0"}
		if devices == 2 {
			pod.Annotations[constants.GpuFractionsNumDevices] = "2"
			br.Spec.SelectedGPUGroups = []string{"g0", "g1"}
		}
	}
	st.Pods["ns/p"] = pod
	st.Nodes["n1"] = &v1.Node{ObjectMeta: metav1.ObjectMeta{Name: "n1"}}
	st.BindRequests["ns/br"] = br
	cl := &fake.Client{S: st}
	rrs := resourcereservation.NewService(false, cl, "image", 40*time.Second, c11ReservationNs, "sa", "kai-resource-reservation", "scale-ns", "", nil)
	bp := plugins.New()
	bp.RegisterPlugin(gpusharing.New(cl, false))
	b := binding.NewBinder(cl, rrs, bp)
	return NewBindRequestReconciler(cl, nil, &fakeRecorder{}, &ReconcilerParams{}, b, rrs), st
}

func c11Bound(st *fake.Store) int {
	n := 0
	for _, c := range st.Calls {
		if len(c) > 6 && c[:6] == "BOUND:" {
			n++
		}
	}
	return n
}

// c11Check: the all-or-nothing outcome after one (possibly faulty) reconcile followed by a
// fault-free one.
func c11Check(r *BindRequestReconciler, st *fake.Store, fraction bool, class string) {
	ctx := context.Background()
	st.FaultsOn = true
	_, err1 := r.Reconcile(ctx, c12Req)
	st.FaultsOn = false
	pod, br := st.Pods["ns/p"], st.BindRequests["ns/br"]
	vr.Observe("firstErr", err1 != nil)
	vr.Observe("boundAfterFirst", pod.Spec.NodeName)
	vr.Observe("phaseAfterFirst", br.Status.Phase)
	vr.Assert(c11Bound(st) <= 1, "C11.never-bound-twice"+class)
	if pod.Spec.NodeName != "" {
		vr.Assert(pod.Spec.NodeName == "n1", "C11.bound-only-to-selected-node"+class)
	}
	// a later fault-free attempt from whatever state was reached completes the binding
	_, err2 := r.Reconcile(ctx, c12Req)
	pod, br = st.Pods["ns/p"], st.BindRequests["ns/br"]
	vr.Observe("secondErr", err2 != nil)
	vr.Assert(c11Bound(st) <= 1, "C11.never-bound-twice-after-retry"+class)
	vr.Assert(pod.Spec.NodeName == "n1", "C11.fault-free-retry-binds-the-pod"+class)
	vr.Assert(br.Status.Phase == schedulingv1alpha2.BindRequestPhaseSucceeded, "C11.fault-free-retry-reports-succeeded"+class)
	if fraction {
		_, hasGroup := pod.Labels[constants.GPUGroup]
		vr.Assert(hasGroup, "C11.bound-fraction-pod-carries-gpu-group"+class)
		reservations := 0
		for _, p := range st.Pods {
			if p.Namespace == c11ReservationNs && p.Labels[constants.GPUGroup] == "g0" {
				reservations++
			}
		}
		vr.Assert(reservations == 1, "C11.bound-fraction-pod-has-one-reservation-pod"+class)
	}
	// a request that Succeeded is a no-op
	w := len(st.Writes)
	if _, err := r.Reconcile(ctx, c12Req); err != nil {
		vr.Assert(false, "C11.succeeded-request-reconciles-cleanly"+class)
	}
	vr.Assert(len(st.Writes) == w && c11Bound(st) == 1, "C11.succeeded-request-is-a-noop"+class)
}

// VerifC11_WholeGpuBind: a BindRequest for a regular (whole-GPU / CPU) pod is reconciled by the
// real BindRequestReconciler + Binder + reservation service (sync) with at most one failing API
// call at an arbitrary call site, then reconciled again without faults.
// BOUND: one pod, one node; at most 1 injected API failure (quick) / 2 (thorough) among all Get/List/Patch/Create(binding) calls of the first reconcile
func VerifC11_WholeGpuBind() {
	vr.SetMaxFaults(vr.Bound("maxFaults", 1, 2))
	r, st := c11World(false, 1)
	c11Check(r, st, false, "")
}

// VerifC11_FractionBind: the same for a fractional pod (one shared GPU group): reservation pod
// creation, the watch for its GPU index (annotated / error event / closed channel / timeout), GPU
// group label, config maps, env/visible-devices settings, binding; rollback on failure.
// BOUND: one fraction pod with 1 device, one node; at most 1 injected API failure; 4 watch outcomes
func VerifC11_FractionBind() {
	vr.SetMaxFaults(1)
	r, st := c11World(true, 1)
	c11Check(r, st, true, "#fraction")
}
