package controllers

import (
	"context"
	"strings"
	"time"

	v1 "k8s.io/api/core/v1"
	metav1 "k8s.io/apimachinery/pkg/apis/meta/v1"
	"k8s.io/apimachinery/pkg/types"
	"k8s.io/client-go/util/workqueue"
	ctrl "sigs.k8s.io/controller-runtime"
	"sigs.k8s.io/controller-runtime/pkg/client"
	"sigs.k8s.io/controller-runtime/pkg/event"
	"sigs.k8s.io/controller-runtime/pkg/reconcile"

	schedulingv1alpha2 "github.com/NVIDIA/KAI-scheduler/pkg/apis/scheduling/v1alpha2"
	"github.com/NVIDIA/KAI-scheduler/pkg/binder/binding"
	"github.com/NVIDIA/KAI-scheduler/pkg/binder/binding/resourcereservation"
	"github.com/NVIDIA/KAI-scheduler/pkg/binder/plugins"
	"github.com/NVIDIA/KAI-scheduler/pkg/binder/plugins/gpusharing"
	"github.com/NVIDIA/KAI-scheduler/pkg/common/constants"
	vs "github.com/NVIDIA/KAI-scheduler/pkg/scheduler/zz_verifsched"
	fake "github.com/NVIDIA/KAI-scheduler/pkg/zz_veriffake"
	vr "github.com/NVIDIA/KAI-scheduler/pkg/zz_verifrt"
)

// c17Queue swallows the reconcile requests the event handlers enqueue (the pod reconciler's
// Reconcile is empty; what matters is the reservation sync done inside the handlers).
type c17Queue struct {
	workqueue.TypedRateLimitingInterface[reconcile.Request]
}

func (c17Queue) Add(reconcile.Request) {}

type c17World struct {
	st   *fake.Store
	rrs  resourcereservation.Interface
	brr  *BindRequestReconciler
	podr *PodReconciler
	npod int
	grp  []string // group selected for pod i
}

func (w *c17World) process() {
	cl := &fake.Client{S: w.st}
	rrs := resourcereservation.NewService(false, cl, "image", 40*time.Second, c11ReservationNs, "sa", "kai-resource-reservation", "scale-ns", "", nil)
	bp := plugins.New()
	bp.RegisterPlugin(gpusharing.New(cl, false))
	w.rrs = rrs
	w.brr = NewBindRequestReconciler(cl, nil, &fakeRecorder{}, &ReconcilerParams{}, binding.NewBinder(cl, rrs, bp), rrs)
	w.podr = &PodReconciler{Client: cl, ResourceReservation: rrs, SchedulerName: "kai-scheduler"}
}

func newC17World(npod int) *c17World {
	w := &c17World{st: fake.NewStore(), npod: npod}
	w.st.Nodes["n1"] = &v1.Node{ObjectMeta: metav1.ObjectMeta{Name: "n1"}}
	for i := 0; i < npod; i++ {
		name := vs.Name("p", i)
		g := "g0"
		if i > 0 {
			g = vs.Name("g", vr.Choose(name+".group", 2))
		}
		w.grp = append(w.grp, g)
		pod := &v1.Pod{ObjectMeta: metav1.ObjectMeta{Name: name, Namespace: "ns", UID: types.UID("uid-" + name),
			Annotations: map[string]string{constants.GpuFraction: "0.5", "runai/shared-gpu-configmap": name + "-abcdefg-shared-gpu"}, Labels: map[string]string{}}}
		pod.Spec.Containers = []v1.Container{{Name: "c0"}}
		pod.Spec.SchedulerName = "kai-scheduler"
		pod.Status.Phase = v1.PodPending
		w.st.Pods["ns/"+name] = pod
		w.st.BindRequests["ns/"+vs.Name("br", i)] = &schedulingv1alpha2.BindRequest{ObjectMeta: metav1.ObjectMeta{Name: vs.Name("br", i), Namespace: "ns"},
			Spec: schedulingv1alpha2.BindRequestSpec{PodName: name, SelectedNode: "n1", ReceivedResourceType: "Fraction",
				ReceivedGPU: &schedulingv1alpha2.ReceivedGPU{Count: 1, Portion: "0.50"}, SelectedGPUGroups: []string{g}}}
	}
	w.process()
	return w
}

func (w *c17World) reservations(g string) []*v1.Pod {
	var out []*v1.Pod
	for _, p := range w.st.Pods {
		if p.Namespace == c11ReservationNs && p.Labels[constants.GPUGroup] == g {
			out = append(out, p)
		}
	}
	return out
}

// consumers: live (Pending or Running) workload pods carrying the group's label.
func (w *c17World) consumers(g string, runningOnly bool) int {
	n := 0
	for _, p := range w.st.Pods {
		if p.Namespace == c11ReservationNs {
			continue
		}
		if p.Status.Phase != v1.PodRunning && (runningOnly || p.Status.Phase != v1.PodPending) {
			continue
		}
		for k, v := range p.Labels {
			if (k == constants.GPUGroup || strings.HasPrefix(k, constants.MultiGpuGroupLabelPrefix)) && v == g {
				n++
			}
		}
	}
	return n
}

// eventSyncedGroupsOf: the completion / deletion of a pod is itself "followed by the sync" of the groups
// the pod carried (the pod controller's handlers call SyncForGpuGroup; nothing else would until an
// unrelated bind or a binder restart): right after the fault-free handler, a group the pod carried
// has a reservation pod iff a live pod still carries it.
func (w *c17World) eventSyncedGroupsOf(pod *v1.Pod) {
	for k, g := range pod.Labels {
		if k == constants.GPUGroup || strings.HasPrefix(k, constants.MultiGpuGroupLabelPrefix) {
			vr.Assert((len(w.reservations(g)) == 1) == (w.consumers(g, false) > 0), "C17.completion-or-deletion-syncs-the-groups-the-pod-carried")
		}
	}
}

// step performs one event of the history; returns false when the chosen event does not apply.
func (w *c17World) step(i int, faulty bool) bool {
	ctx := context.Background()
	ev, k := 0, 0
	if !faulty {
		ev = vr.Choose(vs.Name("event", i), vr.Bound("eventKinds", 5, 6)) // the periodic sync (kind 5) is thorough-tier: every history ends with a sync anyway
		if w.npod > 1 && ev != 1 && ev != 5 {
			k = vr.Choose(vs.Name("which", i), w.npod)
		}
	}
	podKey, brKey := "ns/"+vs.Name("p", k), "ns/"+vs.Name("br", k)
	switch ev {
	case 0: // the binder reconciles BindRequest k (API failures / a crash may hit it)
		if _, ok := w.st.BindRequests[brKey]; !ok {
			return false
		}
		w.st.FaultsOn, w.st.CrashesOn = faulty, faulty && vr.Bound("crashPoints", 0, 1) == 1 // crash points: thorough tier (C11 explores them in quick)
		crashedNow := false
		func() {
			defer func() {
				if r := recover(); r != nil {
					if _, ok := r.(fake.CrashPanic); !ok {
						panic(r)
					}
					w.st.Crashed = false
					crashedNow = true
					w.process()
				}
			}()
			w.brr.Reconcile(ctx, ctrl.Request{NamespacedName: types.NamespacedName{Namespace: "ns", Name: vs.Name("br", k)}})
		}()
		w.st.FaultsOn, w.st.CrashesOn = false, false
		if pod, ok := w.st.Pods[podKey]; ok && pod.Spec.NodeName == "" && !crashedNow && len(w.st.Faulted)+w.st.WatchFailures <= 1 {
			// a single disturbance leaves the rollback's own sync undisturbed: no reservation pod is
			// left without a live consumer
			for _, g := range []string{"g0", "g1"} {
				vr.Assert(len(w.reservations(g)) == 0 || w.consumers(g, false) > 0, "C17.failed-bind-leaves-no-orphan-reservation-pod")
			}
		}
		// every pod bound into a group is given that group's reservation pod's device index
		if pod, ok := w.st.Pods[podKey]; ok && pod.Spec.NodeName != "" && (pod.Status.Phase == v1.PodPending || pod.Status.Phase == v1.PodRunning) {
			rp := w.reservations(w.grp[k])
			vr.Assert(len(rp) == 1, "C17.bound-pod-has-its-groups-reservation-pod")
			cm := w.st.ConfigMaps["ns/"+vs.Name("p", k)+"-abcdefg-shared-gpu-0-evar"]
			if len(rp) == 1 && cm != nil {
				vr.Assert(cm.Data[constants.NvidiaVisibleDevices] == rp[0].Annotations["run.ai/reserve_for_gpu_index"], "C17.bound-pod-gets-the-reservation-pods-device-index")
			}
		}
	case 1: // the kubelet starts the bound pods
		for _, p := range w.st.Pods {
			if p.Namespace == "ns" && p.Spec.NodeName != "" && p.Status.Phase == v1.PodPending {
				p.Status.Phase = v1.PodRunning
			}
		}
	case 2: // pod k completes; the pod controller sees the update
		pod, ok := w.st.Pods[podKey]
		if !ok || pod.Spec.NodeName == "" || (pod.Status.Phase != v1.PodRunning && pod.Status.Phase != v1.PodPending) {
			return false // only a bound pod that is still pending (e.g. rejected by the kubelet) or running can complete
		}
		old := pod.DeepCopy()
		pod.Status.Phase = []v1.PodPhase{v1.PodSucceeded, v1.PodFailed}[vr.Choose(vs.Name("endsAs", i), 2)]
		w.podr.eventHandlers().UpdateFunc(ctx, event.UpdateEvent{ObjectOld: old, ObjectNew: pod.DeepCopy()}, c17Queue{})
		w.eventSyncedGroupsOf(pod)
	case 3: // pod k is deleted; the pod controller sees the deletion
		pod, ok := w.st.Pods[podKey]
		if !ok {
			return false
		}
		delete(w.st.Pods, podKey)
		w.podr.eventHandlers().DeleteFunc(ctx, event.DeleteEvent{Object: pod}, c17Queue{})
		w.eventSyncedGroupsOf(pod)
	case 4: // BindRequest k is deleted (by the scheduler); the binder sees the deletion
		br, ok := w.st.BindRequests[brKey]
		if !ok {
			return false
		}
		delete(w.st.BindRequests, brKey)
		w.brr.deleteHandler(ctx, event.TypedDeleteEvent[client.Object]{Object: br}, nil)
	case 5: // periodic sync
		if w.rrs.Sync(ctx) != nil {
			return false
		}
	}
	for _, g := range []string{"g0", "g1"} {
		vr.Assert(len(w.reservations(g)) <= 1, "C17.at-most-one-reservation-pod-per-group")
	}
	return true
}

// VerifC17_ReservationTracksUsage: sequential histories of binds (with API failures or a crash),
// pod starts, completions, deletions, BindRequest deletions and syncs over fractional pods sharing
// GPU groups, through the real BindRequest reconciler, Binder, reservation service, gpusharing plugin
// and pod-controller event handlers; then the sync that follows.
// BOUND: 2 fractional pods (the second on the first's group or another one), 1 node; histories of 3 (quick) / 4 (thorough) events, the first being the reconcile of the first pod's BindRequest disturbed by at most 1 API failure (quick) / API failure or crash (thorough) at a solver-chosen call, the others fault-free; sequential (no concurrent reconciles, the group mutex is not exercised)
func VerifC17_ReservationTracksUsage() {
	vr.SetMaxFaults(1)
	w := newC17World(2)
	n := vr.Bound("events", 3, 4)
	for i := 0; i < n; i++ {
		if !w.step(i, i == 0) {
			vr.Stop()
		}
	}
	// the sync that follows
	if err := w.rrs.Sync(context.Background()); err != nil {
		vr.Assert(false, "C17.fault-free-sync-succeeds")
	}
	for _, g := range []string{"g0", "g1"} {
		n := len(w.reservations(g))
		vr.Assert(n <= 1, "C17.at-most-one-reservation-pod-per-group")
		vr.Assert((n == 1) == (w.consumers(g, false) > 0), "C17.reservation-exists-iff-a-live-pod-carries-the-group")
		if n == 0 {
			vr.Assert(w.consumers(g, true) == 0, "C17.no-running-pod-attached-to-a-group-without-reservation")
		}
		vr.Cover(n == 1, "C17.cover.reservation-alive-at-the-end")
		vr.Cover(n == 0 && len(w.st.Calls) > 20, "C17.cover.reservation-removed-after-activity")
	}
}
