package resource_updater

import (
	"context"

	v1 "k8s.io/api/core/v1"
	"k8s.io/apimachinery/pkg/api/resource"
	metav1 "k8s.io/apimachinery/pkg/apis/meta/v1"

	v2 "github.com/NVIDIA/KAI-scheduler/pkg/apis/scheduling/v2"
	"github.com/NVIDIA/KAI-scheduler/pkg/apis/scheduling/v2alpha2"
	fake "github.com/NVIDIA/KAI-scheduler/pkg/zz_veriffake"
	vr "github.com/NVIDIA/KAI-scheduler/pkg/zz_verifrt"
)

func c20q(name string) (resource.Quantity, int64) {
	v := vr.AnyInt64(name, 28)
	vr.Assume(v >= 0)
	return *resource.NewQuantity(v, resource.DecimalSI), v
}

func c20val(l v1.ResourceList) int64 {
	q, ok := l[v1.ResourceCPU]
	if !ok {
		return 0
	}
	return q.Value()
}

// VerifC20_QueueStatus: the queue controller's real ResourceUpdater.UpdateQueue over an in-memory
// API store: parent queue P with child queues C1, C2 holding 2 and 1 pod groups whose reported
// allocated / non-preemptible / requested quantities are inputs, previously stored queue statuses
// arbitrary. Children are reconciled in either order, then the parent.
// BOUND: 2 levels, 2 child queues, 3 pod groups; cpu quantities integers in [0, 2^28)
func VerifC20_QueueStatus() {
	st := fake.NewStore()
	mkQueue := func(name, parent string) *v2.Queue {
		q := &v2.Queue{ObjectMeta: metav1.ObjectMeta{Name: name}}
		q.Spec.ParentQueue = parent
		if vr.AnyBool(name + ".hasStaleStatus") {
			s, _ := c20q(name + ".stale")
			q.Status.Allocated = v1.ResourceList{v1.ResourceCPU: s}
			q.Status.AllocatedNonPreemptible = v1.ResourceList{v1.ResourceCPU: s}
			q.Status.Requested = v1.ResourceList{v1.ResourceCPU: s}
		}
		st.Queues = append(st.Queues, q)
		return q
	}
	P, C1, C2 := mkQueue("P", ""), mkQueue("C1", "P"), mkQueue("C2", "P")
	var want [2][3]int64 // per child: allocated, nonPreemptible, requested
	for i, qn := range []string{"C1", "C1", "C2"} {
		n := "pg" + string(rune('0'+i))
		pg := &v2alpha2.PodGroup{ObjectMeta: metav1.ObjectMeta{Name: n, Namespace: "ns"}}
		pg.Spec.Queue = qn
		a, av := c20q(n + ".allocated")
		np, npv := c20q(n + ".nonPreemptible")
		r, rv := c20q(n + ".requested")
		pg.Status.ResourcesStatus.Allocated = v1.ResourceList{v1.ResourceCPU: a}
		pg.Status.ResourcesStatus.AllocatedNonPreemptible = v1.ResourceList{v1.ResourceCPU: np}
		pg.Status.ResourcesStatus.Requested = v1.ResourceList{v1.ResourceCPU: r}
		st.PodGroups = append(st.PodGroups, pg)
		c := 0
		if qn == "C2" {
			c = 1
		}
		want[c][0] += av
		want[c][1] += npv
		want[c][2] += rv
	}
	ru := &ResourceUpdater{Client: &fake.Client{S: st}}
	ctx := context.Background()
	order := [][]*v2.Queue{{C1, C2}, {C2, C1}}[vr.Choose("childOrder", 2)]
	for _, q := range order {
		if ru.UpdateQueue(ctx, q) != nil {
			vr.Stop()
		}
	}
	if ru.UpdateQueue(ctx, P) != nil {
		vr.Stop()
	}
	for i, q := range []*v2.Queue{C1, C2} {
		vr.Assert(c20val(q.Status.Allocated) == want[i][0], "C20.leaf-queue-allocated-is-sum-of-pod-groups")
		vr.Assert(c20val(q.Status.AllocatedNonPreemptible) == want[i][1], "C20.leaf-queue-non-preemptible-is-sum-of-pod-groups")
		vr.Assert(c20val(q.Status.Requested) == want[i][2], "C20.leaf-queue-requested-is-sum-of-pod-groups")
	}
	vr.Observe("parentAllocated", c20val(P.Status.Allocated))
	vr.Assert(c20val(P.Status.Allocated) == want[0][0]+want[1][0], "C20.parent-queue-allocated-is-sum-of-children")
	vr.Assert(c20val(P.Status.AllocatedNonPreemptible) == want[0][1]+want[1][1], "C20.parent-queue-non-preemptible-is-sum-of-children")
	vr.Assert(c20val(P.Status.Requested) == want[0][2]+want[1][2], "C20.parent-queue-requested-is-sum-of-children")
	// reconciling the parent again changes nothing
	before := c20val(P.Status.Allocated)
	if ru.UpdateQueue(ctx, P) != nil {
		vr.Stop()
	}
	vr.Assert(c20val(P.Status.Allocated) == before, "C20.queue-reconcile-idempotent")
}
