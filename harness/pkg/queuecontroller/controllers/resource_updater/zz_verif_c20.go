package resource_updater

import (
	"context"
	"github.com/NVIDIA/KAI-scheduler/pkg/queuecontroller/controllers/childqueues_updater"

	v1 "k8s.io/api/core/v1"
	"k8s.io/apimachinery/pkg/api/resource"
	metav1 "k8s.io/apimachinery/pkg/apis/meta/v1"

	v2 "github.com/NVIDIA/KAI-scheduler/pkg/apis/scheduling/v2"
	"github.com/NVIDIA/KAI-scheduler/pkg/apis/scheduling/v2alpha2"
	fake "github.com/NVIDIA/KAI-scheduler/pkg/zz_veriffake"
	vr "github.com/NVIDIA/KAI-scheduler/pkg/zz_verifrt"
)

func c20q(name string) (resource.Quantity, int64) {
	v := vr.AnyInt64(name, 28)
	vr.Assume(v >= 0)
	return *resource.NewQuantity(v, resource.DecimalSI), v
}

func c20val(l v1.ResourceList) int64 {
	q, ok := l[v1.ResourceCPU]
	if !ok {
		return 0
	}
	return q.Value()
}

// VerifC20_QueueStatus: the queue controller's real ResourceUpdater.UpdateQueue over an in-memory
// API store: parent queue P with child queues C1, C2 holding 2 and 1 pod groups whose reported
// allocated / non-preemptible / requested quantities are inputs, previously stored queue statuses
// arbitrary. Children are reconciled in either order, then the parent.
// BOUND: 2 levels, 2 child queues, 3 pod groups on the children and 1 directly on the parent; cpu quantities integers in [1, 2^28) (non-preemptible: [0, 2^28)); each reconcile = resource updater + child-queues updater
func VerifC20_QueueStatus() {
	st := fake.NewStore()
	mkQueue := func(name, parent string) *v2.Queue {
		q := &v2.Queue{ObjectMeta: metav1.ObjectMeta{Name: name}}
		q.Spec.ParentQueue = parent
		if name != "C2" && vr.AnyBool(name+".hasStaleStatus") {
			s, _ := c20q(name + ".stale")
			q.Status.Allocated = v1.ResourceList{v1.ResourceCPU: s}
			q.Status.AllocatedNonPreemptible = v1.ResourceList{v1.ResourceCPU: s}
			q.Status.Requested = v1.ResourceList{v1.ResourceCPU: s}
		}
		st.Queues = append(st.Queues, q)
		return q
	}
	P, C1, C2 := mkQueue("P", ""), mkQueue("C1", "P"), mkQueue("C2", "P")
	var want [3][3]int64 // per child (and, last, the parent's own pod group): allocated, nonPreemptible, requested
	for i, qn := range []string{"C1", "C1", "C2", "P"} {
		n := "pg" + string(rune('0'+i))
		pg := &v2alpha2.PodGroup{ObjectMeta: metav1.ObjectMeta{Name: n, Namespace: "ns"}}
		pg.Spec.Queue = qn
		a, av := c20q(n + ".allocated")
		np, npv := a, av // a non-preemptible pod group reports its allocation in both fields
		if i != 1 {
			np, npv = c20q(n + ".nonPreemptible")
		}
		r, rv := c20q(n + ".requested")
		// zero quantities take a separate branch in resource.Quantity arithmetic; they are explored for
		// the non-preemptible field (where zero is the common case) and excluded elsewhere
		vr.Assume(av >= 1 && rv >= 1)
		pg.Status.ResourcesStatus.Allocated = v1.ResourceList{v1.ResourceCPU: a}
		pg.Status.ResourcesStatus.AllocatedNonPreemptible = v1.ResourceList{v1.ResourceCPU: np}
		pg.Status.ResourcesStatus.Requested = v1.ResourceList{v1.ResourceCPU: r}
		st.PodGroups = append(st.PodGroups, pg)
		c := 0
		if qn == "C2" {
			c = 1
		}
		if qn == "P" {
			c = 2
		}
		want[c][0] += av
		want[c][1] += npv
		want[c][2] += rv
	}
	ru := &ResourceUpdater{Client: &fake.Client{S: st}}
	cu := &childqueues_updater.ChildQueuesUpdater{Client: &fake.Client{S: st}}
	ctx := context.Background()
	// one reconcile of the queue controller: resource updater, then child-queues updater
	reconcile := func(q *v2.Queue) {
		if ru.UpdateQueue(ctx, q) != nil || cu.UpdateQueue(ctx, q) != nil {
			vr.Stop()
		}
	}
	order := [][]*v2.Queue{{C1, C2}, {C2, C1}}[vr.Choose("childOrder", 2)]
	for _, q := range order {
		reconcile(q)
	}
	reconcile(P)
	for i, q := range []*v2.Queue{C1, C2} {
		vr.Assert(c20val(q.Status.Allocated) == want[i][0], "C20.leaf-queue-allocated-is-sum-of-pod-groups")
		vr.Assert(c20val(q.Status.AllocatedNonPreemptible) == want[i][1], "C20.leaf-queue-non-preemptible-is-sum-of-pod-groups")
		vr.Assert(c20val(q.Status.Requested) == want[i][2], "C20.leaf-queue-requested-is-sum-of-pod-groups")
	}
	vr.Observe("parentAllocated", c20val(P.Status.Allocated))
	vr.Assert(c20val(P.Status.Allocated) == want[0][0]+want[1][0]+want[2][0], "C20.parent-queue-allocated-is-sum-of-children-and-own-pod-groups")
	vr.Assert(c20val(P.Status.AllocatedNonPreemptible) == want[0][1]+want[1][1]+want[2][1], "C20.parent-queue-non-preemptible-is-sum-of-children-and-own-pod-groups")
	vr.Assert(c20val(P.Status.Requested) == want[0][2]+want[1][2]+want[2][2], "C20.parent-queue-requested-is-sum-of-children-and-own-pod-groups")
	vr.Assert(len(P.Status.ChildQueues) == 2, "C20.parent-queue-lists-its-children")
	// reconciling the parent again changes nothing
	before := [3]int64{c20val(P.Status.Allocated), c20val(P.Status.AllocatedNonPreemptible), c20val(P.Status.Requested)}
	reconcile(P)
	vr.Assert(c20val(P.Status.Allocated) == before[0] && c20val(P.Status.AllocatedNonPreemptible) == before[1] && c20val(P.Status.Requested) == before[2], "C20.queue-reconcile-idempotent")
}
