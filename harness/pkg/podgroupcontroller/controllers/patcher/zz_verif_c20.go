package patcher

import (
	"context"

	v1 "k8s.io/api/core/v1"
	"k8s.io/apimachinery/pkg/api/resource"
	metav1 "k8s.io/apimachinery/pkg/apis/meta/v1"

	"github.com/NVIDIA/KAI-scheduler/pkg/apis/scheduling/v2alpha2"
	"github.com/NVIDIA/KAI-scheduler/pkg/podgroupcontroller/controllers/metadata"
	vr "github.com/NVIDIA/KAI-scheduler/pkg/zz_verifrt"
)

func c20Qty(name string) resource.Quantity {
	v := vr.AnyInt64(name, 30)
	vr.Assume(v >= 0)
	return *resource.NewQuantity(v, resource.DecimalSI)
}

func c20Cpu(l v1.ResourceList) int64 {
	q, ok := l[v1.ResourceCPU]
	if !ok {
		return 0
	}
	return q.Value()
}

// VerifC20_PodGroupStatus: the pod group controller's per-pod extraction (metadata.GetPodMetadata,
// non GPU-sharing path), aggregation (PodGroupMetadata.AddPodMetadata / SumResources over real
// resource.Quantity arithmetic) and status computation (getStatusWithMetadata,
// ShouldUpdatePodGroupStatus) on 1..2 pods whose phase, scheduled condition and cpu request are
// inputs, the group's current preemptibility a boolean, and the PREVIOUSLY STORED status arbitrary.
// BOUND: 1..2 pods (quick) / 1..3 (thorough), one container each, cpu quantities integers in [0, 2^30); previously stored status: requested/allocated/allocatedNonPreemptible each absent or an arbitrary cpu quantity
// ASSUME: no GPU-sharing / DRA pods (their extraction needs ConfigMap and ResourceClaim lookups)
func VerifC20_PodGroupStatus() {
	nPods := vr.Choose("pods", vr.Bound("maxPods", 2, 3)) + 1
	meta := metadata.NewPodGroupMetadata()
	meta.Preemptible = vr.AnyBool("preemptible")
	var wantReq, wantAlloc int64
	phases := []v1.PodPhase{v1.PodPending, v1.PodRunning, v1.PodSucceeded, v1.PodFailed}
	for i := 0; i < nPods; i++ {
		n := "pod" + string(rune('0'+i))
		pod := &v1.Pod{ObjectMeta: metav1.ObjectMeta{Name: n, Namespace: "ns"}}
		q := c20Qty(n + ".cpu")
		pod.Spec.Containers = []v1.Container{{Name: "c", Resources: v1.ResourceRequirements{Requests: v1.ResourceList{v1.ResourceCPU: q}}}}
		pod.Status.Phase = phases[vr.Choose(n+".phase", 4)]
		scheduled := vr.Choose(n+".scheduled", 3) // 0 no condition, 1 PodScheduled=True, 2 PodScheduled=False
		switch scheduled {
		case 1:
			pod.Status.Conditions = []v1.PodCondition{{Type: v1.PodScheduled, Status: v1.ConditionTrue}}
		case 2:
			pod.Status.Conditions = []v1.PodCondition{{Type: v1.PodScheduled, Status: v1.ConditionFalse}}
		}
		pm, err := metadata.GetPodMetadata(context.Background(), pod, nil)
		if err != nil {
			vr.Stop()
		}
		meta.AddPodMetadata(pm)
		// ground truth by phase, written from the statement
		active := pod.Status.Phase == v1.PodPending || pod.Status.Phase == v1.PodRunning
		allocated := pod.Status.Phase == v1.PodRunning || (pod.Status.Phase == v1.PodPending && scheduled == 1)
		if active {
			wantReq += q.Value()
		}
		if allocated {
			wantAlloc += q.Value()
		}
	}
	// previously stored status: arbitrary
	var prev v2alpha2.PodGroupStatus
	if vr.AnyBool("prev.hasRequested") {
		prev.ResourcesStatus.Requested = v1.ResourceList{v1.ResourceCPU: c20Qty("prev.requested")}
	}
	if vr.AnyBool("prev.hasAllocated") {
		prev.ResourcesStatus.Allocated = v1.ResourceList{v1.ResourceCPU: c20Qty("prev.allocated")}
	}
	if vr.AnyBool("prev.hasNonPreemptible") {
		prev.ResourcesStatus.AllocatedNonPreemptible = v1.ResourceList{v1.ResourceCPU: c20Qty("prev.allocatedNonPreemptible")}
	}
	pg := &v2alpha2.PodGroup{ObjectMeta: metav1.ObjectMeta{Name: "pg", Namespace: "ns"}, Status: prev}

	// the reconcile writes whenever the stored status differs from the true aggregate in any of the
	// three quantities (otherwise the stored status never converges)
	prevReq, prevAlloc, prevNP := c20Cpu(prev.ResourcesStatus.Requested), c20Cpu(prev.ResourcesStatus.Allocated), c20Cpu(prev.ResourcesStatus.AllocatedNonPreemptible)
	wantNP := wantAlloc
	if meta.Preemptible {
		wantNP = 0
	}
	if prevReq != wantReq || prevAlloc != wantAlloc || prevNP != wantNP {
		vr.Assert(ShouldUpdatePodGroupStatus(pg, meta), "C20.stale-status-is-rewritten")
	}
	st := getStatusWithMetadata(meta, pg.Status)
	vr.Observe("requested", c20Cpu(st.ResourcesStatus.Requested))
	vr.Observe("allocated", c20Cpu(st.ResourcesStatus.Allocated))
	vr.Observe("nonPreemptible", c20Cpu(st.ResourcesStatus.AllocatedNonPreemptible))
	vr.Assert(c20Cpu(st.ResourcesStatus.Requested) == wantReq, "C20.requested-is-sum-over-active-pods")
	vr.Assert(c20Cpu(st.ResourcesStatus.Allocated) == wantAlloc, "C20.allocated-is-sum-over-allocated-pods")
	if meta.Preemptible {
		vr.Assert(c20Cpu(st.ResourcesStatus.AllocatedNonPreemptible) == 0, "C20.non-preemptible-empty-when-preemptible")
	} else {
		vr.Assert(c20Cpu(st.ResourcesStatus.AllocatedNonPreemptible) == wantAlloc, "C20.non-preemptible-equals-allocated-when-non-preemptible")
	}
	// reconciling again without change writes nothing
	pg.Status = *st
	vr.Assert(!ShouldUpdatePodGroupStatus(pg, meta), "C20.second-reconcile-is-a-no-op")
}
