package controllers

import (
	"context"

	v1 "k8s.io/api/core/v1"
	schedv1 "k8s.io/api/scheduling/v1"
	"k8s.io/apimachinery/pkg/api/resource"
	metav1 "k8s.io/apimachinery/pkg/apis/meta/v1"
	"k8s.io/apimachinery/pkg/types"
	ctrl "sigs.k8s.io/controller-runtime"

	"github.com/NVIDIA/KAI-scheduler/pkg/apis/scheduling/v2alpha2"
	fake "github.com/NVIDIA/KAI-scheduler/pkg/zz_veriffake"
	vr "github.com/NVIDIA/KAI-scheduler/pkg/zz_verifrt"
)

func c20cpu(l v1.ResourceList) int64 {
	q, ok := l[v1.ResourceCPU]
	if !ok {
		return 0
	}
	return q.Value()
}

// VerifC20_PodGroupReconcileConverges: the real PodGroupReconciler.Reconcile (get the pod group, list
// its pods through the controller's index, priority-class lookup for preemptibility, per-pod
// metadata, status computation and the status patch) over an in-memory API store, across a history:
// reconcile; the pod set changes (a pod finishes, a pod disappears, all pods disappear) or the
// priority class changes the group's preemptibility; reconcile again. After each reconcile the stored
// status equals the sums over the pods present now; a further reconcile writes nothing.
// BOUND: 0..2 pods with symbolic cpu requests in [1, 2^20) and phase Pending(scheduled) / Running; one change between the two reconciles; priority 50 (preemptible) or 150 (non-preemptible)
func VerifC20_PodGroupReconcileConverges() {
	st := fake.NewStore()
	pg := &v2alpha2.PodGroup{ObjectMeta: metav1.ObjectMeta{Name: "pg", Namespace: "ns"}}
	pg.Spec.PriorityClassName = "prio"
	st.PodGroups = []*v2alpha2.PodGroup{pg}
	prios := []int32{50, 150}
	st.PriorityClasses["prio"] = &schedv1.PriorityClass{ObjectMeta: metav1.ObjectMeta{Name: "prio"}, Value: prios[vr.Choose("priority", 2)]}
	n := vr.Choose("pods", 3)
	cpus := map[string]int64{}
	for i := 0; i < n; i++ {
		name := "p" + string(rune('0'+i))
		c := vr.AnyInt64(name+".cpu", 20)
		vr.Assume(c >= 1)
		cpus["ns/"+name] = c
		pod := &v1.Pod{ObjectMeta: metav1.ObjectMeta{Name: name, Namespace: "ns", Annotations: map[string]string{"pod-group-name": "pg"}}}
		pod.Spec.Containers = []v1.Container{{Name: "c", Resources: v1.ResourceRequirements{Requests: v1.ResourceList{v1.ResourceCPU: *resource.NewQuantity(c, resource.DecimalSI)}}}}
		pod.Status.Phase = v1.PodRunning
		st.Pods["ns/"+name] = pod
	}
	r := &PodGroupReconciler{Client: &fake.Client{S: st}}
	req := ctrl.Request{NamespacedName: types.NamespacedName{Namespace: "ns", Name: "pg"}}
	check := func(tag string) {
		var want int64
		for name, p := range st.Pods {
			if p.Status.Phase == v1.PodRunning || p.Status.Phase == v1.PodPending {
				want += cpus[name]
			}
		}
		got := st.PodGroups[0].Status.ResourcesStatus
		vr.Observe("allocated-"+tag, c20cpu(got.Allocated))
		vr.Observe("requested-"+tag, c20cpu(got.Requested))
		vr.Observe("want-"+tag, want)
		vr.Assert(c20cpu(got.Allocated) == want && c20cpu(got.Requested) == want, "C20.pod-group-status-equals-sums-over-present-pods-after-"+tag)
		wantNP := want
		if st.PriorityClasses["prio"].Value < 100 {
			wantNP = 0
		}
		vr.Assert(c20cpu(got.AllocatedNonPreemptible) == wantNP, "C20.pod-group-non-preemptible-follows-current-preemptibility-after-"+tag)
	}
	reconcile := func() {
		if _, err := r.Reconcile(context.Background(), req); err != nil {
			vr.Assert(false, "C20.pod-group-reconcile-succeeds")
		}
	}
	reconcile()
	check("first-reconcile")
	switch vr.Choose("change", 4) {
	case 0: // a pod finishes
		if n == 0 {
			vr.Stop()
		}
		st.Pods["ns/p0"].Status.Phase = v1.PodSucceeded
	case 1: // a pod disappears
		if n == 0 {
			vr.Stop()
		}
		delete(st.Pods, "ns/p0")
	case 2: // all pods disappear
		for k := range st.Pods {
			delete(st.Pods, k)
		}
	case 3: // the priority class changes the group's preemptibility
		st.PriorityClasses["prio"].Value = 200 - st.PriorityClasses["prio"].Value
	}
	reconcile()
	check("change")
	writes := len(st.Writes)
	reconcile()
	vr.Assert(len(st.Writes) == writes, "C20.pod-group-reconcile-without-change-writes-nothing")
}
