package resource_info

import (
	v1 "k8s.io/api/core/v1"

	"github.com/NVIDIA/KAI-scheduler/pkg/common/constants"
	vr "github.com/NVIDIA/KAI-scheduler/pkg/zz_verifrt"
)

// VerifC14_AddSubRequirementsAreInverse: the arithmetic every incremental aggregate is built from.
// Adding a pod's requirements to an aggregate (job Allocated, node Used / Idle ...) and subtracting
// them again gives the aggregate back, in every dimension, for a request of whole GPUs, GPUs
// claimed through DRA (per device class), or MIG instances; the amount added is exactly the
// request's own size in its vector form, so the vector and structured forms stay in agreement.
// BOUND: one aggregate (cpu, memory, GPUs symbolic integers < 2^20) and one request: cpu, memory, and whole GPUs (< 2^8) / DRA GPUs in 1..2 device classes (< 2^8 each) / one MIG profile count (< 2^8)
func VerifC14_AddSubRequirementsAreInverse() {
	vm := NewResourceVectorMap()
	r := NewResource(vr.AnyFloatNat("agg.cpu", 20), vr.AnyFloatNat("agg.mem", 20), vr.AnyFloatNat("agg.gpus", 20))
	req := NewResourceRequirements(0, vr.AnyFloatNat("req.cpu", 20), vr.AnyFloatNat("req.mem", 20))
	var wantGpus float64
	const mig = v1.ResourceName("nvidia.com/mig-1g.5gb")
	var wantMig int64
	switch vr.Choose("gpuKind", 4) {
	case 1:
		g := vr.AnyFloatNat("req.gpus", 8)
		req.GpuResourceRequirement = *NewGpuResourceRequirementWithGpus(g, 0)
		wantGpus = g
	case 2:
		classes := map[string]int64{}
		n := vr.Choose("draClasses", 2) + 1
		for i := 0; i < n; i++ {
			c := vr.AnyInt64([]string{"dra.a", "dra.b"}[i], 8)
			vr.Assume(c >= 0)
			classes[[]string{"class-a", "class-b"}[i]] = c
			wantGpus += float64(c)
		}
		req.GpuResourceRequirement.SetDraGpus(classes)
	case 3:
		wantMig = vr.AnyInt64("req.mig", 8)
		vr.Assume(wantMig >= 0)
		req.GpuResourceRequirement = *NewGpuResourceRequirementWithMig(map[v1.ResourceName]int64{mig: wantMig})
		vm.AddResourceList(v1.ResourceList{mig: {}})
	}
	cpu0, mem0, gpus0, mig0 := r.Cpu(), r.Memory(), r.GPUs(), r.ScalarResources()[mig]
	r.AddResourceRequirements(req)
	vr.Observe("gpusAfterAdd", r.GPUs())
	vr.Assert(r.GPUs() == gpus0+wantGpus, "C14.adding-a-request-adds-its-gpus")
	vr.Assert(r.Cpu() == cpu0+req.Cpu() && r.Memory() == mem0+req.Memory(), "C14.adding-a-request-adds-its-cpu-and-memory")
	vr.Assert(r.ScalarResources()[mig] == mig0+wantMig, "C14.adding-a-request-adds-its-mig-instances")
	// vector form of the request carries the same GPU amount
	vr.Assert(req.ToVector(vm).Get(vm.GetIndex(constants.GpuResource)) == wantGpus, "C14.vector-form-of-a-request-carries-its-gpus")
	vr.Assert(r.ToVector(vm).Get(vm.GetIndex(constants.GpuResource)) == r.GPUs(), "C14.vector-and-structured-forms-agree")
	r.SubResourceRequirements(req)
	vr.Assert(r.GPUs() == gpus0, "C14.subtracting-a-request-removes-its-gpus")
	vr.Assert(r.Cpu() == cpu0 && r.Memory() == mem0, "C14.subtracting-a-request-removes-its-cpu-and-memory")
	vr.Assert(r.ScalarResources()[mig] == mig0, "C14.subtracting-a-request-removes-its-mig-instances")
}
