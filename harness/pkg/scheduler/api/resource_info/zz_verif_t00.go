package resource_info

import (
	vr "github.com/NVIDIA/KAI-scheduler/pkg/zz_verifrt"
)

// VerifT00_Smoke: engine self-test. Add then Sub restores, LessEqual is consistent with the sums.
func VerifT00_Smoke() {
	a := NewBaseResourceWithValues(vr.AnyFloatNat("a.cpu", 30), vr.AnyFloatNat("a.mem", 30))
	b := NewBaseResourceWithValues(vr.AnyFloatNat("b.cpu", 30), vr.AnyFloatNat("b.mem", 30))
	a.scalarResources["x"] = vr.AnyInt64("a.x", 30)
	b.scalarResources["x"] = vr.AnyInt64("b.x", 30)
	cpu0, x0 := a.milliCpu, a.scalarResources["x"]
	le := a.LessEqual(b)
	vr.Observe("le", le)
	vr.Assert(le == (a.milliCpu <= b.milliCpu && a.memory <= b.memory && a.scalarResources["x"] <= b.scalarResources["x"]), "T00.le")
	a.Add(b)
	vr.Observe("sum.cpu", a.milliCpu)
	a.Sub(b)
	vr.Assert(a.milliCpu == cpu0, "T00.cpu")
	vr.Assert(a.scalarResources["x"] == x0, "T00.x")
	vr.Observe("x", a.scalarResources["x"])
}

// VerifT00_Bug must be violated (witness that the engine finds counterexamples).
func VerifT00_Bug() {
	a := vr.AnyInt64("a", 40)
	b := vr.AnyInt64("b", 40)
	if a > 1000 && b == a*3+7 {
		vr.Assert(b != 1000000, "T00.bug")
	}
}
