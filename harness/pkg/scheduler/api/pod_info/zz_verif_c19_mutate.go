package pod_info

import (
	"context"

	v1 "k8s.io/api/core/v1"
	metav1 "k8s.io/apimachinery/pkg/apis/meta/v1"

	admission "github.com/NVIDIA/KAI-scheduler/pkg/admission/webhook/v1alpha2/gpusharing"
	schedulingv1alpha2 "github.com/NVIDIA/KAI-scheduler/pkg/apis/scheduling/v1alpha2"
	bindergpusharing "github.com/NVIDIA/KAI-scheduler/pkg/binder/plugins/gpusharing"
	"github.com/NVIDIA/KAI-scheduler/pkg/binder/plugins/state"
	"github.com/NVIDIA/KAI-scheduler/pkg/common/constants"
	fake "github.com/NVIDIA/KAI-scheduler/pkg/zz_veriffake"
	vr "github.com/NVIDIA/KAI-scheduler/pkg/zz_verifrt"
)

// VerifC19_PerContainerMaterialisation: per-container selection. Admission's real Validate and
// Mutate prepare the selected container (env vars and volume referring to the shared-GPU config
// maps); the binder's real gpusharing PreBind then creates and fills config maps. What admission
// made the container read must be what the binder wrote; and admission's mutation is idempotent.
// BOUND: pods with 0..1 init containers and 1..2 regular containers; the fraction container selected by name (an init container, the second regular container) or by default; gpu-fraction "0.5"; portion "0.50"; one reserved device index
func VerifC19_PerContainerMaterialisation() {
	pod := &v1.Pod{ObjectMeta: metav1.ObjectMeta{Name: "p", Namespace: "ns", UID: "uid-p", Annotations: map[string]string{constants.GpuFraction: "0.5"}, Labels: map[string]string{}}}
	nInit := vr.Choose("initContainers", 2)
	nReg := vr.Choose("containers", 2) + 1
	for i := 0; i < nInit; i++ {
		pod.Spec.InitContainers = append(pod.Spec.InitContainers, v1.Container{Name: "init" + string(rune('0'+i))})
	}
	for i := 0; i < nReg; i++ {
		pod.Spec.Containers = append(pod.Spec.Containers, v1.Container{Name: "c" + string(rune('0'+i))})
	}
	// which container gets the GPU
	sel := vr.Choose("selected", 3) // 0 default, 1 an init container by name, 2 the last regular container by name
	var want *v1.Container
	switch sel {
	case 0:
		want = &pod.Spec.Containers[0]
	case 1:
		if nInit == 0 {
			vr.Stop()
		}
		pod.Annotations[constants.GpuFractionContainerName] = "init0"
		want = &pod.Spec.InitContainers[0]
	case 2:
		pod.Annotations[constants.GpuFractionContainerName] = pod.Spec.Containers[nReg-1].Name
		want = &pod.Spec.Containers[nReg-1]
	}
	st := fake.NewStore()
	cl := &fake.Client{S: st}
	adm := admission.New(cl, true)
	if adm.Validate(pod) != nil || adm.Mutate(pod) != nil {
		vr.Assert(false, "C19.admission-accepts-a-valid-per-container-request")
		return
	}
	// idempotence of the mutation
	envs, envFroms, vols := len(want.Env), len(want.EnvFrom), len(pod.Spec.Volumes)
	annotation := pod.Annotations["runai/shared-gpu-configmap"]
	if adm.Mutate(pod) != nil {
		vr.Assert(false, "C19.admission-mutation-idempotent")
	}
	vr.Assert(len(want.Env) == envs && len(want.EnvFrom) == envFroms && len(pod.Spec.Volumes) == vols && pod.Annotations["runai/shared-gpu-configmap"] == annotation, "C19.admission-mutation-idempotent")
	// what the selected container will read
	capName := ""
	for _, e := range want.Env {
		if e.Name == constants.NvidiaVisibleDevices && e.ValueFrom != nil && e.ValueFrom.ConfigMapKeyRef != nil {
			capName = e.ValueFrom.ConfigMapKeyRef.Name
		}
	}
	vr.Assert(capName != "", "C19.admission-points-the-selected-container-at-a-config-map")
	evarName := ""
	for _, e := range want.EnvFrom {
		if e.ConfigMapRef != nil {
			evarName = e.ConfigMapRef.Name
		}
	}
	volOK := false
	for _, v := range pod.Spec.Volumes {
		if v.ConfigMap != nil && v.ConfigMap.Name == capName {
			volOK = true
		}
	}
	vr.Assert(volOK, "C19.admission-volume-refers-to-the-same-config-map")
	// the binder materialises the request
	st.Pods["ns/p"] = pod
	br := &schedulingv1alpha2.BindRequest{ObjectMeta: metav1.ObjectMeta{Name: "br", Namespace: "ns"},
		Spec: schedulingv1alpha2.BindRequestSpec{PodName: "p", SelectedNode: "n1", ReceivedResourceType: "Fraction",
			ReceivedGPU: &schedulingv1alpha2.ReceivedGPU{Count: 1, Portion: "0.50"}, SelectedGPUGroups: []string{"g0"}}}
	plugin := bindergpusharing.New(cl, false)
	err := plugin.PreBind(context.Background(), pod.DeepCopy(), &v1.Node{}, br, &state.BindingState{ReservedGPUIds: []string{"3"}})
	vr.Assert(err == nil, "C19.binder-materialises-an-admitted-request")
	if err != nil {
		return
	}
	capCM := st.ConfigMaps["ns/"+capName]
	vr.Assert(capCM != nil, "C19.binder-writes-the-config-map-the-container-reads")
	if capCM != nil {
		vr.Assert(capCM.Data[constants.NvidiaVisibleDevices] == "3", "C19.binder-writes-visible-devices-where-the-container-reads-them")
		vr.Assert(capCM.Data["GPU_PORTION"] == "0.50", "C19.binder-writes-the-portion-where-the-container-reads-it")
	}
	if evarName != "" {
		vr.Assert(st.ConfigMaps["ns/"+evarName] != nil, "C19.binder-creates-the-env-config-map-the-container-imports")
	}
}
