package pod_info

import (
	v1 "k8s.io/api/core/v1"
	"k8s.io/apimachinery/pkg/api/resource"
	metav1 "k8s.io/apimachinery/pkg/apis/meta/v1"

	"github.com/NVIDIA/KAI-scheduler/pkg/scheduler/api/resource_info"
	vr "github.com/NVIDIA/KAI-scheduler/pkg/zz_verifrt"
)

// VerifC01_PodRequestIsWhatThePodOccupies: what the scheduler charges a pod to its node (the request
// computed by the real PodInfo constructor from the pod spec) is what the pod occupies on the node
// by Kubernetes' rule: max(sum of the containers, largest init container) plus the pod overhead, in
// cpu and in memory.
// BOUND: 1..2 containers, 0..1 init container, overhead present or not; milli-cpu and memory quantities symbolic integers in [0, 2^20)
func VerifC01_PodRequestIsWhatThePodOccupies() {
	q := func(name string, milli bool) (resource.Quantity, int64) {
		v := vr.AnyInt64(name, 20)
		vr.Assume(v >= 0)
		if milli {
			return *resource.NewMilliQuantity(v, resource.DecimalSI), v
		}
		return *resource.NewQuantity(v, resource.BinarySI), v
	}
	pod := &v1.Pod{ObjectMeta: metav1.ObjectMeta{Name: "p", Namespace: "ns", UID: "uid-p"}}
	var sumCpu, sumMem int64
	n := vr.Choose("containers", 2) + 1
	for i := 0; i < n; i++ {
		name := "c" + string(rune('0'+i))
		c, cv := q(name+".cpu", true)
		m, mv := q(name+".mem", false)
		pod.Spec.Containers = append(pod.Spec.Containers, v1.Container{Name: name,
			Resources: v1.ResourceRequirements{Requests: v1.ResourceList{v1.ResourceCPU: c, v1.ResourceMemory: m}}})
		sumCpu += cv
		sumMem += mv
	}
	wantCpu, wantMem := sumCpu, sumMem
	if vr.AnyBool("hasInitContainer") {
		c, cv := q("init.cpu", true)
		m, mv := q("init.mem", false)
		pod.Spec.InitContainers = []v1.Container{{Name: "init",
			Resources: v1.ResourceRequirements{Requests: v1.ResourceList{v1.ResourceCPU: c, v1.ResourceMemory: m}}}}
		if cv > wantCpu {
			wantCpu = cv
		}
		if mv > wantMem {
			wantMem = mv
		}
	}
	if vr.AnyBool("hasOverhead") {
		c, cv := q("overhead.cpu", true)
		m, mv := q("overhead.mem", false)
		pod.Spec.Overhead = v1.ResourceList{v1.ResourceCPU: c, v1.ResourceMemory: m}
		wantCpu += cv
		wantMem += mv
	}
	pi := NewTaskInfo(pod, nil, resource_info.NewResourceVectorMap())
	vr.Observe("cpu", pi.ResReq.Cpu())
	vr.Assert(pi.ResReq.Cpu() == float64(wantCpu), "C01.pod-cpu-request-is-max-of-containers-and-init-plus-overhead")
	vr.Assert(pi.ResReq.Memory() == float64(wantMem), "C01.pod-memory-request-is-max-of-containers-and-init-plus-overhead")
}
