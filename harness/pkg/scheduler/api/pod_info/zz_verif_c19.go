package pod_info

import (
	"math"
	"strconv"

	v1 "k8s.io/api/core/v1"
	"k8s.io/apimachinery/pkg/api/resource"

	admission "github.com/NVIDIA/KAI-scheduler/pkg/admission/webhook/v1alpha2/gpusharing"
	gpurequesthandler "github.com/NVIDIA/KAI-scheduler/pkg/binder/plugins/gpusharing/gpu-request"
	"github.com/NVIDIA/KAI-scheduler/pkg/common/constants"
	"github.com/NVIDIA/KAI-scheduler/pkg/scheduler/api/resource_info"
	vr "github.com/NVIDIA/KAI-scheduler/pkg/zz_verifrt"
)

// c19Config says which parts of the pod are symbolic in a C19 kernel.
type c19Config struct {
	frac, mem, cnt int // 0 absent, 1 symbolic, 2 concrete valid value, 3 symbolic presence with concrete valid value
	digits         int // >0: the symbolic string has exactly this many bytes, each assumed to be an ASCII digit
}

// c19String is an arbitrary byte string of length 1..maxL, or (digits > 0) a string of exactly
// `digits` ASCII digits.
func c19String(name string, maxL, digits int) string {
	if digits == 0 {
		return vr.AnyString(name, vr.Choose(name+"Len", maxL)+1)
	}
	s := vr.AnyString(name, digits)
	for i := 0; i < len(s); i++ {
		vr.Assume(s[i] >= '0' && s[i] <= '9')
	}
	return s
}

func c19Present(mode int, name string) bool {
	switch mode {
	case 0:
		return false
	case 3:
		return vr.AnyBool(name)
	}
	return true
}

// c19Denote is the oracle's own reading of a decimal annotation: optional '+', then one or more ASCII
// digits; the mathematical value if it fits uint64. (Independent of strconv.)
func c19Denote(s string) (v uint64, ok bool) {
	i := 0
	if len(s) > 0 && s[0] == '+' {
		i = 1
	}
	if i == len(s) {
		return 0, false
	}
	for ; i < len(s); i++ {
		c := s[i]
		if c < '0' || c > '9' {
			return 0, false
		}
		d := uint64(c - '0')
		if v > (math.MaxUint64-d)/10 {
			return 0, false
		}
		v = v*10 + d
	}
	return v, true
}

// c19Run: admission (GPUSharing.Validate), the binder's validator (ValidateGpuRequests) and the
// scheduler (NewTaskInfo -> updatePodAdditionalFields) are run on the same pod.
//   - gpu-fraction (symbolic mode): an arbitrary *result* of strconv.ParseFloat (any double incl.
//     NaN/Inf, or an error),
//   - gpu-memory, gpu-fraction-num-devices (symbolic mode): arbitrary byte strings of length 1..L pushed
//     through the real strconv.ParseUint / ParseInt code.
func c19Run(cfg c19Config) {
	maxL := vr.Bound("strlen", 3, 5)
	pod := &v1.Pod{}
	pod.Name, pod.Namespace = "p", "ns"
	pod.Annotations = map[string]string{}
	pod.Spec.Containers = []v1.Container{{Name: "c0"}}

	hasFrac := c19Present(cfg.frac, "hasFrac")
	hasMem := c19Present(cfg.mem, "hasMem")
	hasCnt := c19Present(cfg.cnt, "hasCnt")
	hasWhole := vr.AnyBool("hasWhole")
	enabled := vr.AnyBool("sharingEnabled")

	if hasFrac {
		if cfg.frac == 1 {
			pod.Annotations[constants.GpuFraction] = vr.FloatString("frac")
		} else {
			pod.Annotations[constants.GpuFraction] = "0.5"
		}
	}
	if hasMem {
		if cfg.mem == 1 {
			pod.Annotations[constants.GpuMemory] = c19String("mem", maxL, cfg.digits)
		} else {
			pod.Annotations[constants.GpuMemory] = "1024"
		}
	}
	if hasCnt {
		if cfg.cnt == 1 {
			pod.Annotations[constants.GpuFractionsNumDevices] = c19String("cnt", maxL, cfg.digits)
		} else {
			pod.Annotations[constants.GpuFractionsNumDevices] = "2"
		}
	}
	if hasWhole {
		pod.Spec.Containers[0].Resources.Limits = v1.ResourceList{constants.NvidiaGpuResource: *resource.NewQuantity(1, resource.DecimalSI)}
		pod.Spec.Containers[0].Resources.Requests = v1.ResourceList{constants.NvidiaGpuResource: *resource.NewQuantity(1, resource.DecimalSI)}
	}

	admitErr := admission.New(nil, enabled).Validate(pod)
	binderErr := gpurequesthandler.ValidateGpuRequests(pod)
	pi := NewTaskInfo(pod, nil, resource_info.NewResourceVectorMap())
	g := &pi.ResReq.GpuResourceRequirement

	vr.Observe("admit", admitErr == nil)
	vr.Observe("binder", binderErr == nil)
	vr.Observe("type", string(pi.ResourceRequestType))
	vr.Observe("count", g.GetNumOfGpuDevices())
	vr.Observe("mem", g.GpuMemory())

	sharingType := pi.ResourceRequestType == RequestTypeFraction || pi.ResourceRequestType == RequestTypeGpuMemory

	if admitErr != nil {
		// nothing is promised about rejected pods, except that rejection is consistent with the binder
		// when sharing is enabled (same validator)
		if enabled {
			vr.Assert(binderErr != nil, "C19.binder-agrees-on-reject")
		}
		return
	}

	// ---- admission accepted
	vr.Assert(binderErr == nil, "C19.binder-accepts-what-admission-accepts")
	if sharingType {
		vr.Assert(enabled, "C19.sharing-disabled-rejected")
	}

	// expected device count (denotation of the count annotation; default 1)
	expCount := int64(1)
	if hasCnt {
		c, cok := c19Denote(pod.Annotations[constants.GpuFractionsNumDevices])
		vr.Assert(cok && c >= 1, "C19.count-positive")
		if c > math.MaxInt64 {
			vr.Assert(g.GetNumOfGpuDevices() > 0 && uint64(g.GetNumOfGpuDevices()) == c, "C19.count-exact#exceeds-int64")
		} else {
			vr.Assert(g.GetNumOfGpuDevices() == int64(c), "C19.count-exact")
		}
		expCount = int64(c)
	}

	if hasFrac {
		f, ferr := strconv.ParseFloat(pod.Annotations[constants.GpuFraction], 64)
		if f != f {
			vr.Assert(false, "C19.fraction-finite#nan")
		} else {
			vr.Assert(ferr == nil && f > 0 && f < 1, "C19.fraction-in-range")
		}
		vr.Assert(pi.ResourceRequestType == RequestTypeFraction, "C19.fraction-type")
		vr.Assert(g.GpuFractionalPortion() == f, "C19.fraction-portion-exact")
		if !hasCnt {
			vr.Assert(g.GetNumOfGpuDevices() == 1, "C19.fraction-default-count")
		}
		switch {
		case f < 0.005:
			vr.Assert(g.GPUs() > 0, "C19.fraction-quota-positive#below-0.005")
		case expCount > math.MaxInt64/100 || expCount < 0:
			vr.Assert(g.GPUs() > 0, "C19.fraction-quota-positive#count-above-maxint64/100")
		default:
			vr.Assert(g.GPUs() > 0, "C19.fraction-quota-positive")
		}
		if !hasCnt && f == f {
			// the quota the scheduler accounts for one device is the admitted fraction to two decimals
			d := g.GPUs() - f
			vr.Assert(d <= 0.0051 && d >= -0.0051, "C19.fraction-quota-is-the-fraction-to-two-decimals")
		}
	}

	if hasMem {
		m, mok := c19Denote(pod.Annotations[constants.GpuMemory])
		vr.Assert(mok && m >= 1, "C19.memory-positive")
		if m > math.MaxInt64 {
			vr.Assert(pi.ResourceRequestType == RequestTypeGpuMemory && g.GpuMemory() > 0 && uint64(g.GpuMemory()) == m, "C19.memory-exact#exceeds-int64")
		} else {
			vr.Assert(pi.ResourceRequestType == RequestTypeGpuMemory, "C19.memory-type")
			vr.Assert(g.GpuMemory() == int64(m), "C19.memory-exact")
		}
		if !hasCnt {
			vr.Assert(g.GetNumOfGpuDevices() == 1, "C19.memory-default-count")
		}
	}

	if hasWhole && !hasFrac && !hasMem {
		vr.Assert(pi.ResourceRequestType == RequestTypeRegular, "C19.whole-type")
		vr.Assert(g.GPUs() == 1 && g.GetNumOfGpuDevices() == 1, "C19.whole-exact")
	}
	if !hasFrac && !hasMem {
		vr.Assert(!sharingType, "C19.no-annotation-no-sharing")
	}
}

// VerifC19_Fraction: the gpu-fraction annotation is any ParseFloat result; count absent or "2".
// BOUND: one container; optional whole-GPU limit on it; count annotation absent or the literal "2"
// ASSUME: strconv.ParseFloat contract only: err != nil => value in {0, +Inf, -Inf}
func VerifC19_Fraction() {
	c19Run(c19Config{frac: 1, mem: 0, cnt: 3})
}

// VerifC19_Memory: the gpu-memory annotation is any byte string of length 1..L.
// BOUND: L = 3 (quick) / 5 (thorough) arbitrary bytes; count annotation absent or the literal "2"
func VerifC19_Memory() {
	c19Run(c19Config{frac: 0, mem: 1, cnt: 3})
}

// VerifC19_CountWithFraction: the gpu-fraction-num-devices annotation is any byte string of length 1..L, fraction "0.5".
// BOUND: L = 3 (quick) / 5 (thorough) arbitrary bytes
func VerifC19_CountWithFraction() {
	c19Run(c19Config{frac: 2, mem: 0, cnt: 1})
}

// VerifC19_CountWithMemory: as above with gpu-memory "1024".
// BOUND: L = 3 (quick) / 5 (thorough) arbitrary bytes
func VerifC19_CountWithMemory() {
	c19Run(c19Config{frac: 0, mem: 2, cnt: 1})
}

// VerifC19_Matrix: all presence combinations of the three annotations (valid literal values),
// whole-GPU limit and the GPU-sharing switch.
func VerifC19_Matrix() {
	c19Run(c19Config{frac: 3, mem: 3, cnt: 3})
}

// VerifC19_MemoryDigits20_Thorough: gpu-memory is any string of exactly 20 decimal digits (covers the whole
// uint64 range and beyond, i.e. the ParseUint/ParseInt disagreement region).
// BOUND: exactly 20 bytes, each an ASCII digit (non-digit bytes in long strings are outside the claim)
func VerifC19_MemoryDigits20_Thorough() {
	c19Run(c19Config{frac: 0, mem: 1, cnt: 0, digits: 20})
}

// VerifC19_MemoryDigits19_Thorough: as above with 19 digits (largest length that always fits uint64).
// BOUND: exactly 19 bytes, each an ASCII digit
func VerifC19_MemoryDigits19_Thorough() {
	c19Run(c19Config{frac: 0, mem: 1, cnt: 0, digits: 19})
}

// VerifC19_CountDigits20_Thorough: gpu-fraction-num-devices is any string of exactly 20 decimal digits; fraction "0.5".
// BOUND: exactly 20 bytes, each an ASCII digit
func VerifC19_CountDigits20_Thorough() {
	c19Run(c19Config{frac: 2, mem: 0, cnt: 1, digits: 20})
}
