// Package zz_verifsched builds small scheduler-side object graphs (nodes, pods, pod groups) for the
// harnesses through the REAL constructors, then replaces the quantities by the harness's (possibly
// symbolic) values. Only exported API of the scheduler packages is used.
package zz_verifsched

import (
	"fmt"

	v1 "k8s.io/api/core/v1"
	"k8s.io/apimachinery/pkg/api/resource"
	metav1 "k8s.io/apimachinery/pkg/apis/meta/v1"
	"k8s.io/apimachinery/pkg/types"

	enginev2alpha2 "github.com/NVIDIA/KAI-scheduler/pkg/apis/scheduling/v2alpha2"
	commonconstants "github.com/NVIDIA/KAI-scheduler/pkg/common/constants"
	"github.com/NVIDIA/KAI-scheduler/pkg/scheduler/api/common_info"
	"github.com/NVIDIA/KAI-scheduler/pkg/scheduler/api/node_info"
	"github.com/NVIDIA/KAI-scheduler/pkg/scheduler/api/pod_info"
	"github.com/NVIDIA/KAI-scheduler/pkg/scheduler/api/pod_status"
	"github.com/NVIDIA/KAI-scheduler/pkg/scheduler/api/podgroup_info"
	"github.com/NVIDIA/KAI-scheduler/pkg/scheduler/api/resource_info"
)

// NoAffinity is a NodePodAffinityInfo that records nothing (upstream inter-pod affinity state is
// outside every claim, DESIGN.md section 6).
type NoAffinity struct{}

func (NoAffinity) AddPod(*v1.Pod)                   {}
func (NoAffinity) RemovePod(*v1.Pod) error          { return nil }
func (NoAffinity) HasPodsWithPodAffinity() bool     { return false }
func (NoAffinity) HasPodsWithPodAntiAffinity() bool { return false }
func (NoAffinity) Name() string                     { return "" }

// NewNode builds a ready node through the real constructor; allocatable/idle cpu, memory, whole GPUs
// are then set to the given values (structured and vector form), pods and GPU memory too.
func NewNode(name string, cpu, mem, gpus float64, maxPods int, gpuMemMiB int64, vm *resource_info.ResourceVectorMap) *node_info.NodeInfo {
	n := &v1.Node{
		ObjectMeta: metav1.ObjectMeta{Name: name, Labels: map[string]string{}},
		Status: v1.NodeStatus{
			Allocatable: v1.ResourceList{v1.ResourcePods: *resource.NewQuantity(int64(maxPods), resource.DecimalSI)},
			Capacity:    v1.ResourceList{v1.ResourcePods: *resource.NewQuantity(int64(maxPods), resource.DecimalSI)},
			Conditions:  []v1.NodeCondition{{Type: v1.NodeReady, Status: v1.ConditionTrue}},
		},
	}
	ni := node_info.NewNodeInfo(n, NoAffinity{}, vm)
	ni.MemoryOfEveryGpuOnNode = gpuMemMiB
	ni.GpuMemorySynced = true
	set := func() *resource_info.Resource {
		r := resource_info.NewResource(cpu, mem, gpus)
		r.ScalarResources()[v1.ResourcePods] = int64(maxPods)
		return r
	}
	ni.Allocatable = set()
	ni.Idle = set()
	ni.AllocatableVector = ni.Allocatable.ToVector(vm)
	ni.IdleVector = ni.Idle.ToVector(vm)
	return ni
}

// GpuSpec describes the GPU part of a request.
type GpuSpec struct {
	Kind    int     // 0 none/whole (Whole GPUs), 1 fraction, 2 gpu-memory
	Whole   float64 // whole GPUs (Kind 0)
	Portion float64 // Kind 1
	MemMiB  int64   // Kind 2
	Devices int64   // Kind 1/2: number of fractional devices (>=1)
}

// NewTask builds a PodInfo through the real constructor (pod with the group annotation and
// sub-group label), then sets its request and status.
func NewTask(uid, job, subGroup string, cpu, mem float64, g GpuSpec, status pod_status.PodStatus, node string, vm *resource_info.ResourceVectorMap) *pod_info.PodInfo {
	pod := &v1.Pod{ObjectMeta: metav1.ObjectMeta{
		Name: uid, Namespace: "ns", UID: types.UID(uid),
		Annotations: map[string]string{commonconstants.PodGroupAnnotationForPod: job},
		Labels:      map[string]string{},
	}}
	if subGroup != "" {
		pod.Labels[commonconstants.SubGroupLabelKey] = subGroup
	}
	pod.Spec.SchedulerName = "kai-scheduler"
	pod.Spec.Containers = []v1.Container{{Name: "c"}}
	pi := pod_info.NewTaskInfo(pod, nil, vm)
	var req *resource_info.ResourceRequirements
	switch g.Kind {
	case 0:
		req = resource_info.NewResourceRequirements(g.Whole, cpu, mem)
	case 1:
		req = resource_info.NewResourceRequirements(0, cpu, mem)
		req.GpuResourceRequirement = *resource_info.NewGpuResourceRequirementWithMultiFraction(g.Devices, g.Portion, 0)
		pi.ResourceRequestType = pod_info.RequestTypeFraction
	case 2:
		req = resource_info.NewResourceRequirements(0, cpu, mem)
		req.GpuResourceRequirement = *resource_info.NewGpuResourceRequirementWithMultiFraction(g.Devices, 0, g.MemMiB)
		pi.ResourceRequestType = pod_info.RequestTypeGpuMemory
	}
	req.ScalarResources()[resource_info.PodsResourceName] = 1
	pi.ResReq = req
	pi.ResReqVector = req.ToVector(vm)
	pi.Status = status
	pi.NodeName = node
	pod.Spec.NodeName = node
	return pi
}

// NewJob builds a PodGroupInfo with the given tasks via the real AddTaskInfo.
func NewJob(uid string, queue string, preemptible bool, priority int32, minMember int32, vm *resource_info.ResourceVectorMap, tasks ...*pod_info.PodInfo) *podgroup_info.PodGroupInfo {
	j := podgroup_info.NewPodGroupInfoWithVectorMap(common_info.PodGroupID(uid), vm)
	pg := &enginev2alpha2.PodGroup{ObjectMeta: metav1.ObjectMeta{Name: uid, Namespace: "ns", UID: types.UID(uid)}}
	pg.Spec.Queue = queue
	pg.Spec.MinMember = minMember
	j.SetPodGroup(pg)
	j.Priority = priority
	if preemptible {
		j.Preemptibility = enginev2alpha2.Preemptible
	} else {
		j.Preemptibility = enginev2alpha2.NonPreemptible
	}
	for _, t := range tasks {
		t.Job = common_info.PodGroupID(uid)
		j.AddTaskInfo(t)
	}
	return j
}

// NewJobWithSubGroups is NewJob for a PodGroup that declares sub-groups (tasks carry their sub-group
// label from NewTask).
func NewJobWithSubGroups(uid string, queue string, preemptible bool, priority int32, minMember int32, subGroups []enginev2alpha2.SubGroup, vm *resource_info.ResourceVectorMap, tasks ...*pod_info.PodInfo) *podgroup_info.PodGroupInfo {
	j := podgroup_info.NewPodGroupInfoWithVectorMap(common_info.PodGroupID(uid), vm)
	pg := &enginev2alpha2.PodGroup{ObjectMeta: metav1.ObjectMeta{Name: uid, Namespace: "ns", UID: types.UID(uid)}}
	pg.Spec.Queue = queue
	pg.Spec.MinMember = minMember
	pg.Spec.SubGroups = subGroups
	j.SetPodGroup(pg)
	j.Priority = priority
	if preemptible {
		j.Preemptibility = enginev2alpha2.Preemptible
	} else {
		j.Preemptibility = enginev2alpha2.NonPreemptible
	}
	for _, t := range tasks {
		t.Job = common_info.PodGroupID(uid)
		j.AddTaskInfo(t)
	}
	return j
}

// NewJobWithTopology is NewJob (preemptible, priority 0) for a PodGroup with a topology constraint.
func NewJobWithTopology(uid string, queue string, minMember int32, tc enginev2alpha2.TopologyConstraint, vm *resource_info.ResourceVectorMap, tasks ...*pod_info.PodInfo) *podgroup_info.PodGroupInfo {
	return NewJobWithTopologyAndSubGroups(uid, queue, minMember, tc, nil, vm, tasks...)
}

// NewJobWithTopologyAndSubGroups: a PodGroup with a workload-level topology constraint and sub-groups
// that may carry constraints of their own.
func NewJobWithTopologyAndSubGroups(uid string, queue string, minMember int32, tc enginev2alpha2.TopologyConstraint, subGroups []enginev2alpha2.SubGroup, vm *resource_info.ResourceVectorMap, tasks ...*pod_info.PodInfo) *podgroup_info.PodGroupInfo {
	j := podgroup_info.NewPodGroupInfoWithVectorMap(common_info.PodGroupID(uid), vm)
	pg := &enginev2alpha2.PodGroup{ObjectMeta: metav1.ObjectMeta{Name: uid, Namespace: "ns", UID: types.UID(uid)}}
	pg.Spec.Queue = queue
	pg.Spec.MinMember = minMember
	pg.Spec.TopologyConstraint = tc
	pg.Spec.SubGroups = subGroups
	j.SetPodGroup(pg)
	j.Preemptibility = enginev2alpha2.Preemptible
	for _, t := range tasks {
		t.Job = common_info.PodGroupID(uid)
		j.AddTaskInfo(t)
	}
	return j
}

func Name(prefix string, i int) string { return fmt.Sprintf("%s%d", prefix, i) }

// SetNodePods replaces the node's pod-slot capacity by a (possibly symbolic) value.
func SetNodePods(ni *node_info.NodeInfo, pods int64) {
	ni.Allocatable.ScalarResources()[v1.ResourcePods] = pods
	ni.Idle.ScalarResources()[v1.ResourcePods] = pods
	ni.AllocatableVector = ni.Allocatable.ToVector(ni.VectorMap)
	ni.IdleVector = ni.Idle.ToVector(ni.VectorMap)
}
