package cache

import (
	"context"

	v1 "k8s.io/api/core/v1"
	metav1 "k8s.io/apimachinery/pkg/apis/meta/v1"

	kubeaischedulerver "github.com/NVIDIA/KAI-scheduler/pkg/apis/client/clientset/versioned"
	schedclient "github.com/NVIDIA/KAI-scheduler/pkg/apis/client/clientset/versioned/typed/scheduling/v1alpha2"
	schedulingv1alpha2 "github.com/NVIDIA/KAI-scheduler/pkg/apis/scheduling/v1alpha2"
	"github.com/NVIDIA/KAI-scheduler/pkg/scheduler/api/bindrequest_info"
	vr "github.com/NVIDIA/KAI-scheduler/pkg/zz_verifrt"
)

// c12Clientset records the BindRequest deletions the scheduler issues (nothing else is called).
type c12Clientset struct {
	kubeaischedulerver.Interface
	deleted *[]string
}

type c12Sched struct {
	schedclient.SchedulingV1alpha2Interface
	deleted *[]string
}

type c12Requests struct {
	schedclient.BindRequestInterface
	ns      string
	deleted *[]string
}

func (c c12Clientset) SchedulingV1alpha2() schedclient.SchedulingV1alpha2Interface {
	return c12Sched{deleted: c.deleted}
}
func (c c12Sched) BindRequests(ns string) schedclient.BindRequestInterface {
	return c12Requests{ns: ns, deleted: c.deleted}
}
func (c c12Requests) Delete(_ context.Context, name string, _ metav1.DeleteOptions) error {
	*c.deleted = append(*c.deleted, c.ns+"/"+name)
	return nil
}

// VerifC12_SchedulerDeletesOnlyTerminalRequests: the scheduler's stale-request sweep
// (SchedulerCache.cleanStaleBindRequest, run with every snapshot) deletes a BindRequest of an existing
// node only when it is terminally failed - phase Failed with the retry budget used up (or no budget) -
// and never one the binder is still retrying, is still working on, or has completed; requests of
// deleted nodes are always deleted. The same predicate decides whether the pod is still charged to
// its node (C12's snapshot harness), so hand-off and sweep agree.
// BOUND: 1 request of an existing node (phase in {"", Pending, Failed, Succeeded}; failedAttempts and backoffLimit (nil or value) symbolic int32) + 1 pending request of a deleted node
func VerifC12_SchedulerDeletesOnlyTerminalRequests() {
	var deleted []string
	sc := &SchedulerCache{kubeAiSchedulerClient: c12Clientset{deleted: &deleted}}
	phases := []string{"", schedulingv1alpha2.BindRequestPhasePending, schedulingv1alpha2.BindRequestPhaseFailed, schedulingv1alpha2.BindRequestPhaseSucceeded}
	mk := func(name string) *bindrequest_info.BindRequestInfo {
		br := &schedulingv1alpha2.BindRequest{ObjectMeta: metav1.ObjectMeta{Name: name, Namespace: "ns"}}
		br.Spec.PodName = "pod-" + name
		br.Status.Phase = phases[vr.Choose(name+".phase", 4)]
		br.Status.FailedAttempts = vr.AnyInt32(name+".failedAttempts", 32)
		if vr.AnyBool(name + ".hasBackoffLimit") {
			l := vr.AnyInt32(name+".backoffLimit", 32)
			br.Spec.BackoffLimit = &l
		}
		return bindrequest_info.NewBindRequestInfo(br)
	}
	live := bindrequest_info.BindRequestMap{}
	var infos []*bindrequest_info.BindRequestInfo
	for _, n := range []string{"a"} {
		bri := mk(n)
		live[bindrequest_info.NewKeyFromRequest(bri.BindRequest)] = bri
		infos = append(infos, bri)
	}
	gone := bindrequest_info.NewBindRequestInfo(&schedulingv1alpha2.BindRequest{ObjectMeta: metav1.ObjectMeta{Name: "gone", Namespace: "ns"},
		Status: schedulingv1alpha2.BindRequestStatus{Phase: schedulingv1alpha2.BindRequestPhasePending}})
	if err := sc.cleanStaleBindRequest(live, []*bindrequest_info.BindRequestInfo{gone}); err != nil {
		vr.Assert(false, "C12.stale-request-sweep-succeeds")
	}
	has := func(name string) bool {
		for _, d := range deleted {
			if d == "ns/"+name {
				return true
			}
		}
		return false
	}
	for _, bri := range infos {
		br := bri.BindRequest
		terminal := br.Status.Phase == schedulingv1alpha2.BindRequestPhaseFailed &&
			(br.Spec.BackoffLimit == nil || br.Status.FailedAttempts >= *br.Spec.BackoffLimit)
		vr.Assert(has(br.Name) == terminal, "C12.scheduler-deletes-exactly-the-terminally-failed-requests")
		// the sweep and the hand-off use one notion of "terminal": a request that still charges its pod
		// to the node is not swept
		stillCharged := live.GetBindRequestForPod(&v1.Pod{ObjectMeta: metav1.ObjectMeta{Namespace: "ns", Name: br.Spec.PodName}}) != nil
		vr.Assert(!(stillCharged && has(br.Name)), "C12.request-still-charged-to-its-node-is-not-swept")
	}
	vr.Assert(has("gone"), "C12.requests-of-deleted-nodes-are-swept")
	vr.Assert(len(deleted) <= 2, "C12.each-request-deleted-at-most-once")
}
