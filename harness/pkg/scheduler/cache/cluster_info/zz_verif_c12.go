package cluster_info

import (
	v1 "k8s.io/api/core/v1"
	resourceapi "k8s.io/api/resource/v1"
	"k8s.io/apimachinery/pkg/api/resource"
	metav1 "k8s.io/apimachinery/pkg/apis/meta/v1"
	"k8s.io/apimachinery/pkg/labels"

	schedulingv1alpha2 "github.com/NVIDIA/KAI-scheduler/pkg/apis/scheduling/v1alpha2"
	commonconstants "github.com/NVIDIA/KAI-scheduler/pkg/common/constants"
	"github.com/NVIDIA/KAI-scheduler/pkg/scheduler/api/common_info"
	"github.com/NVIDIA/KAI-scheduler/pkg/scheduler/api/node_info"
	"github.com/NVIDIA/KAI-scheduler/pkg/scheduler/api/pod_info"
	"github.com/NVIDIA/KAI-scheduler/pkg/scheduler/api/pod_status"
	"github.com/NVIDIA/KAI-scheduler/pkg/scheduler/api/resource_info"
	"github.com/NVIDIA/KAI-scheduler/pkg/scheduler/cache/cluster_info/data_lister"
	vs "github.com/NVIDIA/KAI-scheduler/pkg/scheduler/zz_verifsched"
	vr "github.com/NVIDIA/KAI-scheduler/pkg/zz_verifrt"
)

type c12Lister struct {
	data_lister.DataLister
	brs []*schedulingv1alpha2.BindRequest
}

func (l *c12Lister) ListBindRequests() ([]*schedulingv1alpha2.BindRequest, error) { return l.brs, nil }

// VerifC12_SnapshotChargesPendingBindRequest: scheduler side of the hand-off. A pending pod with a
// BindRequest goes through the real snapshot steps (snapshotBindRequests, getNodeToPodInfosMap ->
// NewTaskInfoWithBindRequest / getTaskStatus, addTasksToNodes -> NodeInfo.AddTask): until the
// request is gone its pod is charged to the selected node (idle reduced by the request, GPU groups
// attached); a request for a node that no longer exists is handed to deletion and its pod is
// schedulable again; IsFailed() is exactly "phase Failed and the retry budget is used up".
// BOUND: one pending pod (cpu request symbolic milli-cpu < 2^20, optionally a fraction pod with one selected GPU group (and possibly a stale group label from an earlier failed bind), optionally a DRA claim whose object is named like the pod's claim reference or generated from a template), one node with symbolic cpu (or the selected node deleted); BindRequest phase empty/Pending/Failed/Succeeded, failedAttempts and backoffLimit (nil or any int32) symbolic
func VerifC12_SnapshotChargesPendingBindRequest() {
	vm := resource_info.NewResourceVectorMap()
	nodeCpu := vr.AnyFloatNat("node.cpu", 24)
	node := vs.NewNode("n1", nodeCpu, 1<<40, 2, 110, 16000, vm)
	nodes := map[string]*node_info.NodeInfo{}
	nodeExists := vr.AnyBool("selectedNodeExists")
	if nodeExists {
		nodes["n1"] = node
	}
	req := vr.AnyInt64("pod.milliCpu", 20)
	vr.Assume(req >= 10)
	vr.Assume(float64(req) <= nodeCpu) // the scheduler selected a node that had room for the pod
	pod := &v1.Pod{ObjectMeta: metav1.ObjectMeta{Name: "p", Namespace: "ns", UID: "uid-p",
		Annotations: map[string]string{commonconstants.PodGroupAnnotationForPod: "pg"}, Labels: map[string]string{}}}
	pod.Spec.Containers = []v1.Container{{Name: "c", Resources: v1.ResourceRequirements{Requests: v1.ResourceList{
		v1.ResourceCPU: *resource.NewMilliQuantity(req, resource.DecimalSI)}}}}
	pod.Status.Phase = v1.PodPending
	fraction := vr.AnyBool("fractionPod")
	br := &schedulingv1alpha2.BindRequest{ObjectMeta: metav1.ObjectMeta{Name: "br", Namespace: "ns"},
		Spec: schedulingv1alpha2.BindRequestSpec{PodName: "p", SelectedNode: "n1", ReceivedResourceType: "Regular"}}
	if fraction {
		pod.Annotations[commonconstants.GpuFraction] = "0.5"
		br.Spec.ReceivedResourceType = "Fraction"
		br.Spec.ReceivedGPU = &schedulingv1alpha2.ReceivedGPU{Count: 1, Portion: "0.5"}
		br.Spec.SelectedGPUGroups = []string{"g0"}
		if vr.AnyBool("staleGroupLabel") {
			// left over from an earlier failed bind whose rollback could not remove it: the in-flight
			// request, not the stale label, says which group the pod is being bound into
			pod.Labels[commonconstants.GPUGroup] = "g-stale"
		}
	}
	// Succeeded: the binder is done but the scheduler's pod informer has not shown spec.nodeName yet -
	// the request is then the only thing tying the pod to the node
	br.Status.Phase = []string{"", schedulingv1alpha2.BindRequestPhasePending, schedulingv1alpha2.BindRequestPhaseFailed, schedulingv1alpha2.BindRequestPhaseSucceeded}[vr.Choose("phase", 4)]
	br.Status.FailedAttempts = vr.AnyInt32("failedAttempts", 32)
	if vr.AnyBool("hasBackoffLimit") {
		l := vr.AnyInt32("backoffLimit", 32)
		br.Spec.BackoffLimit = &l
	}
	// a device claimed through DRA: the pod-level claim reference "gpu" points at a ResourceClaim object
	// that has the same name or (claims generated from a template) a different one; the BindRequest
	// carries the devices the scheduler chose, the claim object is not allocated in the API yet
	var claims []*resourceapi.ResourceClaim
	claimKind := vr.Choose("draClaim", 3) // 0 none, 1 claim object named like the reference, 2 generated from a template
	if claimKind > 0 {
		objName := "gpu"
		if claimKind == 2 {
			objName = "p-gpu-x7k2q"
			tmpl := "gpu-template"
			pod.Spec.ResourceClaims = []v1.PodResourceClaim{{Name: "gpu", ResourceClaimTemplateName: &tmpl}}
			pod.Status.ResourceClaimStatuses = []v1.PodResourceClaimStatus{{Name: "gpu", ResourceClaimName: &objName}}
		} else {
			pod.Spec.ResourceClaims = []v1.PodResourceClaim{{Name: "gpu", ResourceClaimName: &objName}}
		}
		claims = []*resourceapi.ResourceClaim{{ObjectMeta: metav1.ObjectMeta{Name: objName, Namespace: "ns", UID: "uid-claim"},
			Status: resourceapi.ResourceClaimStatus{ReservedFor: []resourceapi.ResourceClaimConsumerReference{{Resource: "pods", Name: "p", UID: "uid-p"}}}}}
		br.Spec.ResourceClaimAllocations = []schedulingv1alpha2.ResourceClaimAllocation{{Name: "gpu", Allocation: &resourceapi.AllocationResult{
			Devices: resourceapi.DeviceAllocationResult{Results: []resourceapi.DeviceRequestAllocationResult{{Request: "r", Driver: "gpu.nvidia.com", Pool: "n1", Device: "dev-1"}}}}}}
	}
	c := &ClusterInfo{dataLister: &c12Lister{brs: []*schedulingv1alpha2.BindRequest{br}}, nodePoolSelector: labels.Everything()}
	brMap, forDeleted, err := c.snapshotBindRequests(nodes)
	if err != nil {
		vr.Assert(false, "C12.snapshot-of-bind-requests-succeeds")
	}
	existing := map[common_info.PodID]*pod_info.PodInfo{}
	if _, err := c.addTasksToNodes([]*v1.Pod{pod}, existing, nodes, brMap, claims, vm); err != nil {
		vr.Assert(false, "C12.snapshot-of-pods-succeeds")
	}
	pi := existing["uid-p"]
	vr.Assert(pi != nil, "C12.snapshot-keeps-the-pod")
	if pi == nil {
		return
	}
	vr.Observe("status", pi.Status.String())
	failed := br.Status.Phase == schedulingv1alpha2.BindRequestPhaseFailed && (br.Spec.BackoffLimit == nil || br.Status.FailedAttempts >= *br.Spec.BackoffLimit)
	if nodeExists && failed {
		// terminally failed: the request is kept only to be deleted, the pod is schedulable again
		vr.Assert(len(brMap) == 1, "C12.failed-request-stays-visible-for-deletion")
		for _, bri := range brMap {
			vr.Assert(bri.IsFailed(), "C12.request-is-failed-iff-phase-failed-and-retries-used-up")
		}
		vr.Assert(pi.Status == pod_status.Pending && pi.NodeName == "", "C12.pod-of-failed-request-is-schedulable-again")
		vr.Assert(node.Idle.Cpu() == nodeCpu, "C12.failed-request-charges-nothing")
	} else if nodeExists {
		vr.Assert(len(forDeleted) == 0 && len(brMap) == 1, "C12.live-request-is-kept")
		vr.Assert(pi.Status == pod_status.Binding && pi.NodeName == "n1", "C12.pod-with-live-request-is-binding-on-the-selected-node")
		_, onNode := node.PodInfos[pod_info.PodKey(pod)]
		vr.Assert(onNode, "C12.pod-with-live-request-is-placed-on-the-selected-node")
		vr.Assert(node.Idle.Cpu() == nodeCpu-float64(req), "C12.selected-node-is-charged-the-pods-request")
		if fraction {
			vr.Assert(len(pi.GPUGroups) == 1 && pi.GPUGroups[0] == "g0", "C12.pod-with-live-request-keeps-its-gpu-groups")
			vr.Assert(node.UsedSharedGPUsMemory["g0"] > 0, "C12.selected-gpu-group-is-charged")
		}
		for _, bri := range brMap {
			vr.Assert(!bri.IsFailed(), "C12.request-is-failed-iff-phase-failed-and-retries-used-up")
		}
		if claimKind > 0 {
			info := pi.ResourceClaimInfo["gpu"]
			ok := info != nil && info.Allocation != nil && len(info.Allocation.Devices.Results) == 1 && info.Allocation.Devices.Results[0].Device == "dev-1"
			vr.Assert(ok, "C12.pod-with-live-request-keeps-its-claimed-devices")
		}
	} else {
		vr.Assert(len(forDeleted) == 1 && len(brMap) == 0, "C12.request-for-deleted-node-is-handed-to-deletion")
		vr.Assert(pi.Status == pod_status.Pending && pi.NodeName == "", "C12.pod-of-request-for-deleted-node-is-schedulable-again")
	}
}
