package reclaim

import (
	"time"

	metav1 "k8s.io/apimachinery/pkg/apis/meta/v1"

	"github.com/NVIDIA/KAI-scheduler/pkg/scheduler/api"
	"github.com/NVIDIA/KAI-scheduler/pkg/scheduler/api/common_info"
	"github.com/NVIDIA/KAI-scheduler/pkg/scheduler/api/pod_status"
	"github.com/NVIDIA/KAI-scheduler/pkg/scheduler/api/podgroup_info"
	"github.com/NVIDIA/KAI-scheduler/pkg/scheduler/api/queue_info"
	"github.com/NVIDIA/KAI-scheduler/pkg/scheduler/api/resource_info"
	"github.com/NVIDIA/KAI-scheduler/pkg/scheduler/framework"
	"github.com/NVIDIA/KAI-scheduler/pkg/scheduler/plugins/minruntime"
	vs "github.com/NVIDIA/KAI-scheduler/pkg/scheduler/zz_verifsched"
	vr "github.com/NVIDIA/KAI-scheduler/pkg/zz_verifrt"
)

// VerifC06_ReclaimFilter: the real reclaim victims queue (getOrderedVictimsQueue ->
// JobsOrderByQueues.InitializeWithJobs with FilterNonPreemptible / FilterNonActiveAllocated and the
// real minruntime plugin's reclaim filter, LCA and queue resolution) over one candidate victim.
// BOUND: queues top <- mid <- {leaf, other}, top2 <- far; reclaim min-runtimes unset or 0..1023 hours; victim age 0..1023 whole hours; one-pod non-elastic victim
// ASSUME: durations are whole hours
func VerifC06_ReclaimFilter() {
	names := []string{"top", "mid", "leaf", "other", "top2", "far"}
	parents := map[string]string{"top": "", "mid": "top", "leaf": "mid", "other": "mid", "top2": "", "far": "top2"}
	qs := map[common_info.QueueID]*queue_info.QueueInfo{}
	rec := map[string]*int64{}
	for _, n := range names {
		q := &queue_info.QueueInfo{UID: common_info.QueueID(n), Name: n, ParentQueue: common_info.QueueID(parents[n]), ChildQueues: []common_info.QueueID{}}
		if n != "leaf" && vr.AnyBool(n+".hasReclaimMinRuntime") {
			h := vr.AnyInt64(n+".reclaimMinRuntimeHours", 10)
			vr.Assume(h >= 0)
			q.ReclaimMinRuntime = &metav1.Duration{Duration: time.Duration(h) * time.Hour}
			rec[n] = &h
		}
		qs[q.UID] = q
	}
	for _, n := range names {
		if p := parents[n]; p != "" {
			qs[common_info.QueueID(p)].ChildQueues = append(qs[common_info.QueueID(p)].ChildQueues, common_info.QueueID(n))
		}
	}
	vm := resource_info.NewResourceVectorMap()
	victimQueue := []string{"other", "far", "leaf"}[vr.Choose("victimQueue", 3)]
	vt := vs.NewTask("v0", "victim", "", 100, 1000, vs.GpuSpec{}, []pod_status.PodStatus{pod_status.Running, pod_status.Pending}[vr.Choose("victimStatus", 2)], "n1", vm)
	victim := vs.NewJob("victim", victimQueue, vr.AnyBool("victimPreemptible"), 0, 1, vm, vt)
	pt := vs.NewTask("p0", "reclaimer", "", 100, 1000, vs.GpuSpec{}, pod_status.Pending, "", vm)
	reclaimer := vs.NewJob("reclaimer", "leaf", true, 0, 1, vm, pt)
	ageHours := vr.AnyInt64("victimAgeHours", 10)
	vr.Assume(ageHours >= 0)
	started := vr.AnyBool("victimHasStartTime")
	if started {
		st := time.Now().Add(-time.Duration(ageHours) * time.Hour)
		victim.LastStartTimestamp = &st
	}
	method := []string{"lca", "queue"}[vr.Choose("resolveMethod", 2)]
	ssn := &framework.Session{ClusterInfo: &api.ClusterInfo{Queues: qs, PodGroupInfos: map[common_info.PodGroupID]*podgroup_info.PodGroupInfo{"victim": victim, "reclaimer": reclaimer}}}
	plugin := minruntime.New(framework.PluginArguments{"defaultPreemptMinRuntime": "2h", "defaultReclaimMinRuntime": "3h", "reclaimResolveMethod": method})
	plugin.OnSessionOpen(ssn)

	accepted := getOrderedVictimsQueue(ssn, reclaimer)().Len() == 1
	vr.Observe("accepted", accepted)
	if !accepted {
		return
	}
	vr.Assert(victim.IsPreemptibleJob(), "C06.reclaim-victim-preemptible")
	vr.Assert(victim.Queue != reclaimer.Queue, "C06.reclaim-victim-other-queue")
	vr.Assert(vt.Status == pod_status.Running, "C06.reclaim-victim-has-active-pods")
	// documented resolution (docs/plugins/minruntime.md)
	resolved := int64(3)
	var chain []string // queues consulted, lowest priority first
	switch {
	case method == "queue" && victimQueue == "far":
		chain = []string{"top2", "far"}
	case method == "queue":
		chain = []string{"top", "mid", victimQueue}
	case victimQueue == "far": // different top-level trees: the victim's top-level queue
		chain = []string{"top2"}
	default: // LCA of leaf and other is mid; one step down towards the victim is `other`, then up to the root
		chain = []string{"top", "mid", "other"}
	}
	for _, n := range chain {
		if h, ok := rec[n]; ok {
			resolved = *h
		}
	}
	if started {
		vr.Assert(ageHours >= resolved, "C06.reclaim-victim-outside-min-runtime")
	}
}
