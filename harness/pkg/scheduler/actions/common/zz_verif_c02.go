package common

import (
	"github.com/NVIDIA/KAI-scheduler/pkg/scheduler/api"
	"github.com/NVIDIA/KAI-scheduler/pkg/scheduler/api/common_info"
	"github.com/NVIDIA/KAI-scheduler/pkg/scheduler/api/node_info"
	"github.com/NVIDIA/KAI-scheduler/pkg/scheduler/api/pod_info"
	"github.com/NVIDIA/KAI-scheduler/pkg/scheduler/api/pod_status"
	"github.com/NVIDIA/KAI-scheduler/pkg/scheduler/api/podgroup_info"
	"github.com/NVIDIA/KAI-scheduler/pkg/scheduler/api/resource_info"
	"github.com/NVIDIA/KAI-scheduler/pkg/scheduler/framework"
	vs "github.com/NVIDIA/KAI-scheduler/pkg/scheduler/zz_verifsched"
	vr "github.com/NVIDIA/KAI-scheduler/pkg/zz_verifrt"
)

type c02Sharer struct {
	t      *pod_info.PodInfo
	mem    int64
	groups []string
}

// VerifC02_SharedGpuMemory: a node with G GPUs of T MiB each holds 0..2 GPU-memory sharers (each
// running or terminating, on group g0 or g1, request symbolic) and one whole-GPU pod (0..G GPUs, running or nominated onto idle GPUs earlier in the cycle);
// a new GPU-memory request (symbolic MiB, 1 or 2 devices) is placed by the real FittingNode +
// allocateTaskToNode (gpu_sharing.AllocateFractionalGPUTaskToNode, FittingGPUs, NodeInfo shared-GPU
// accounting) and committed.
// BOUND: G in {1,2,3}; device memory T = 1000 MiB (quick) / {1000, 100, 16000} (thorough); 0..2 existing sharers over <= 2 groups with SYMBOLIC memory requests in [1, 2^20); one whole-GPU pod; the new request's memory from the boundary menu {1, 0.3T, T/2, T/2+1, T, T+1, 2T} with 1..2 devices; GPU order: none, or (for 2-device requests and with a nominated whole-GPU pod) whole GPUs first; the new pod's cpu request regular (100m) or below the best-effort threshold (0)
// ASSUME: pre-state reachable: per group the occupying sharers fit the device, groups + whole GPUs <= G; the existing sharers' derived fractional portions (dead for this property: only the queue charge uses them) are havoc'ed
func VerifC02_SharedGpuMemory() {
	c02Lite = false
	c02SharedGpuMemory("C02", false)
}

// VerifC02_MultiDeviceWithTerminatingSharer: the same placement for a request of two devices on a
// node where group g0 holds a running AND a terminating sharer and group g1 a running one (memories
// symbolic): a request that fits g0 only once the terminating sharer is gone must be nominated, also
// when the other device it gets has idle room.
// BOUND: G in {2,3}; sharers: g0 running + g0 terminating + g1 running with symbolic memory; device memory 1000 MiB; new request for 2 devices from the boundary menu
// ASSUME: as VerifC02_SharedGpuMemory
func VerifC02_MultiDeviceWithTerminatingSharer() {
	c02Lite = false
	c02SharedGpuMemory("C02", true)
}

// VerifC01_SharedGpuDevices: the same placement seen from the node: devices opened for sharing plus
// whole GPUs in use never exceed the node's GPUs, and a request that needs a terminating sharer's
// memory or device is only nominated (also for pods below the best-effort cpu threshold).
// BOUND: as VerifC02_SharedGpuMemory with 0..1 existing sharers and no GPU order function
// ASSUME: as VerifC02_SharedGpuMemory
func VerifC01_SharedGpuDevices() {
	c02Lite = true
	c02SharedGpuMemory("C01", false)
}

// c02Lite (set by the C01 variant): at most one existing sharer, no GPU order function - the full
// space is C02's own harness.
var c02Lite bool

func c02SharedGpuMemory(prop string, mixed bool) {
	vr.OpaqueNonlinear(true)
	vm := resource_info.NewResourceVectorMap()
	G := vr.Choose("gpus", 3) + 1
	if mixed {
		G = vr.Choose("gpus", 2) + 2
	}
	// device memory from a concrete menu, so that the new request's portion (ceil(m/T*100)/100, the
	// only float that steers control flow, via isValidGpuPortion) is computed with real IEEE arithmetic
	tMenu := []int64{1000, 100, 16000}
	T := tMenu[vr.Choose("gpuMemory", vr.Bound("gpuMemoryMenu", 1, 3))]
	node := vs.NewNode("n1", 1<<40, 1<<40, float64(G), 110, 1000, vm)
	node.MemoryOfEveryGpuOnNode = T
	jobs := map[common_info.PodGroupID]*podgroup_info.PodGroupInfo{}
	var sharers []*c02Sharer
	add := func(name string, g vs.GpuSpec, st pod_status.PodStatus, groups []string) *pod_info.PodInfo {
		t := vs.NewTask(name, "job-"+name, "", 100, 1000, g, st, "n1", vm)
		t.GPUGroups = groups
		j := vs.NewJob("job-"+name, "q0", true, 0, 1, vm, t)
		jobs[j.UID] = j
		return t
	}
	// whole-GPU pod
	wholeNominated := false
	whole := vr.Choose("wholeGpus", G+1)
	if mixed {
		whole = 0
	}
	if whole > 0 {
		// running, or nominated earlier in the cycle onto idle GPUs (which are then reserved for it)
		wst := []pod_status.PodStatus{pod_status.Running, pod_status.Pipelined}[vr.Choose("wholeGpuPodStatus", 2)]
		wholeNominated = wst == pod_status.Pipelined
		t := add("w0", vs.GpuSpec{Kind: 0, Whole: float64(whole)}, wst, nil)
		if node.AddTask(t) != nil {
			vr.Stop()
		}
	}
	nEx := 3
	if !mixed {
		nEx = vr.Choose("sharers", 3)
		if c02Lite {
			nEx = vr.Choose("sharers", 2)
		}
	}
	for i := 0; i < nEx; i++ {
		name := vs.Name("s", i)
		m := vr.AnyInt64(name+".mem", 20)
		vr.Assume(m >= 1)
		var st pod_status.PodStatus
		var grp []string
		if mixed {
			st = []pod_status.PodStatus{pod_status.Running, pod_status.Releasing, pod_status.Running}[i]
			grp = []string{[]string{"g0", "g0", "g1"}[i]}
		} else {
			st = []pod_status.PodStatus{pod_status.Running, pod_status.Releasing}[vr.Choose(name+".status", 2)]
			grp = []string{vs.Name("g", vr.Choose(name+".group", 2))}
		}
		t := add(name, vs.GpuSpec{Kind: 2, MemMiB: m, Devices: 1}, st, grp)
		if node.AddTask(t) != nil {
			vr.Stop()
		}
		sharers = append(sharers, &c02Sharer{t: t, mem: m, groups: grp})
	}
	// reachable pre-state
	occ := func(group string) int64 {
		var sum int64
		for _, s := range sharers {
			if s.t.Status == pod_status.Pipelined || s.t.NodeName != "n1" {
				continue
			}
			for _, g := range s.groups {
				if g == group {
					sum += s.mem
				}
			}
		}
		return sum
	}
	groupsUsed := func() int {
		seen := map[string]bool{}
		for _, s := range sharers {
			if s.t.Status == pod_status.Pipelined || s.t.NodeName != "n1" {
				continue
			}
			for _, g := range s.groups {
				seen[g] = true
			}
		}
		return len(seen)
	}
	// groups whose every occupying sharer is terminating: their device is about to be free
	freeing := func() int {
		state := map[string]int{} // 1: only terminating sharers so far, 2: has a non-terminating sharer
		for _, s := range sharers {
			if s.t.Status == pod_status.Pipelined || s.t.NodeName != "n1" {
				continue
			}
			for _, g := range s.groups {
				if s.t.Status != pod_status.Releasing {
					state[g] = 2
				} else if state[g] == 0 {
					state[g] = 1
				}
			}
		}
		n := 0
		for _, v := range state {
			if v == 1 {
				n++
			}
		}
		return n
	}
	vr.Assume(occ("g0") <= T)
	vr.Assume(occ("g1") <= T)
	if wholeNominated {
		// nominated whole GPUs are not in use yet; they are reserved on idle or about-to-be-free devices
		if groupsUsed()-freeing()+whole > G {
			vr.Stop()
		}
	} else if groupsUsed()+whole > G {
		vr.Stop()
	}

	// the new request: boundary values relative to the device memory (concrete, see above)
	mMenu := []int64{1, T * 3 / 10, T / 2, T/2 + 1, T, T + 1, 2 * T}
	m := mMenu[vr.Choose("new.mem", len(mMenu))]
	devices := int64(vr.Choose("devices", 2) + 1)
	if mixed {
		devices = 2
	}
	// cpu below the scheduler's best-effort threshold (10 milli-cpu) or a regular cpu request
	newCpu := []float64{100, 0}[vr.Choose("new.cpu", 2)]
	nt := vs.NewTask("new", "job-new", "", newCpu, 1000, vs.GpuSpec{Kind: 2, MemMiB: m, Devices: devices}, pod_status.Pending, "", vm)
	nj := vs.NewJob("job-new", "q0", true, 0, 1, vm, nt)
	jobs[nj.UID] = nj
	ch := &c01Cache{}
	ssn := &framework.Session{ClusterInfo: &api.ClusterInfo{Nodes: map[string]*node_info.NodeInfo{"n1": node}, PodGroupInfos: jobs}, Cache: ch}
	// GPU order: none registered, or a whole-GPU-first order (what gpuspread yields for a node with
	// used shared groups) - the scoring arithmetic of the order plugins itself is not executed
	if !c02Lite && (devices == 2 || wholeNominated) && vr.Choose("gpuOrder", 2) == 1 {
		ssn.AddGPUOrderFn(func(_ *pod_info.PodInfo, _ *node_info.NodeInfo, gpuIdx string) (float64, error) {
			if gpuIdx == pod_info.WholeGpuIndicator {
				return 1, nil
			}
			return 0, nil
		})
	}
	stmt := ssn.Statement()
	if !ssn.FittingNode(nt, node, true) {
		vr.Observe("fits", false)
		return
	}
	if !allocateTaskToNode(ssn, stmt, nt, node, false) {
		vr.Observe("fits", false)
		return
	}
	vr.Observe("fits", true)
	vr.Observe("status", nt.Status.String())
	vr.Observe("groups", len(nt.GPUGroups))
	// N distinct devices
	vr.Assert(int64(len(nt.GPUGroups)) == devices, prop+".one-group-per-requested-device")
	if len(nt.GPUGroups) == 2 {
		vr.Assert(nt.GPUGroups[0] != nt.GPUGroups[1], prop+".multi-fraction-devices-distinct")
	}
	sharers = append(sharers, &c02Sharer{t: nt, mem: m, groups: nt.GPUGroups})
	wasAllocated := nt.Status == pod_status.Allocated
	if wasAllocated {
		// bound now: every group it joined must have room among the *occupying* sharers (incl. terminating ones)
		for _, g := range nt.GPUGroups {
			vr.Assert(occ(g) <= T, prop+".group-memory-not-oversubscribed")
		}
		if wholeNominated {
			vr.Assert(groupsUsed() <= G, prop+".shared-plus-whole-devices-within-gpu-count")
			// a bind never takes a device that an earlier nomination of the cycle relies on
			vr.Assert(groupsUsed()-freeing()+whole <= G, prop+".bound-shared-devices-leave-room-for-nominated-whole-gpus")
		} else {
			vr.Assert(groupsUsed()+whole <= G, prop+".shared-plus-whole-devices-within-gpu-count")
		}
	} else {
		vr.Assert(nt.Status == pod_status.Pipelined, prop+".placed-is-allocated-or-pipelined")
	}
	if stmt.Commit() != nil {
		vr.Stop()
	}
	if !wasAllocated {
		vr.Assert(len(ch.binds) == 0, prop+".no-bind-for-nominated")
	}
	// a Bind reaches the cluster only for a task that was allocated (never for a nominated one)
	vr.Assert(len(ch.binds) == 0 || len(ch.pipelines) == 0, prop+".bind-xor-nomination")
}
