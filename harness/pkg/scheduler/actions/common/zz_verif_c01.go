package common

import (
	v1 "k8s.io/api/core/v1"

	"github.com/NVIDIA/KAI-scheduler/pkg/scheduler/api"
	"github.com/NVIDIA/KAI-scheduler/pkg/scheduler/api/common_info"
	"github.com/NVIDIA/KAI-scheduler/pkg/scheduler/api/eviction_info"
	"github.com/NVIDIA/KAI-scheduler/pkg/scheduler/api/node_info"
	"github.com/NVIDIA/KAI-scheduler/pkg/scheduler/api/pod_info"
	"github.com/NVIDIA/KAI-scheduler/pkg/scheduler/api/pod_status"
	"github.com/NVIDIA/KAI-scheduler/pkg/scheduler/api/podgroup_info"
	"github.com/NVIDIA/KAI-scheduler/pkg/scheduler/api/resource_info"
	"github.com/NVIDIA/KAI-scheduler/pkg/scheduler/cache"
	"github.com/NVIDIA/KAI-scheduler/pkg/scheduler/framework"
	vs "github.com/NVIDIA/KAI-scheduler/pkg/scheduler/zz_verifsched"
	vr "github.com/NVIDIA/KAI-scheduler/pkg/zz_verifrt"
)

type c01Cache struct {
	cache.Cache
	binds, evicts, pipelines []string
}

type c01Err struct{}

func (*c01Err) Error() string { return "injected failure" }

func (c *c01Cache) Bind(p *pod_info.PodInfo, hostname string, _ map[string]string) error {
	if vr.Fault("bind") {
		return &c01Err{}
	}
	c.binds = append(c.binds, string(p.UID))
	return nil
}
func (c *c01Cache) Evict(p *v1.Pod, _ *podgroup_info.PodGroupInfo, _ eviction_info.EvictionMetadata, _ string) error {
	if vr.Fault("evict") {
		return &c01Err{}
	}
	c.evicts = append(c.evicts, string(p.UID))
	return nil
}
func (c *c01Cache) TaskPipelined(t *pod_info.PodInfo, _ string) {
	c.pipelines = append(c.pipelines, string(t.UID))
}

// c01Dim selects which capacity is symbolic: 0 cpu (milli), 1 whole GPUs, 2 pod slots.
type c01World struct {
	dim        int
	node       *node_info.NodeInfo
	alloc      float64
	reqs       map[common_info.PodID]float64
	tasks      []*pod_info.PodInfo
	cache      *c01Cache
	ssn        *framework.Session
	bestEffort bool
}

func (w *c01World) get(r *resource_info.Resource) float64 {
	switch w.dim {
	case 0:
		return r.Cpu()
	case 1:
		return r.GPUs()
	}
	return float64(r.ScalarResources()[v1.ResourcePods])
}

func c01Build(existing int, statuses []pod_status.PodStatus, newTasks int) *c01World {
	w := &c01World{dim: vr.Choose("dim", 4), reqs: map[common_info.PodID]float64{}}
	if w.dim == 3 {
		// pod slots again, with best-effort pods (requests below the scheduler's 10 milli-cpu / 10 MiB thresholds)
		w.dim, w.bestEffort = 2, true
	}
	vm := resource_info.NewResourceVectorMap()
	cpu, gpus, pods := float64(1<<40), float64(1<<20), 110
	switch w.dim {
	case 0:
		cpu = vr.AnyFloatNat("node.cpu", 30)
		w.alloc = cpu
	case 1:
		gpus = vr.AnyFloatNat("node.gpus", 10)
		w.alloc = gpus
	}
	w.node = vs.NewNode("n1", cpu, 1<<40, gpus, pods, 16000, vm)
	if w.dim == 2 {
		p := vr.AnyInt64("node.pods", 10)
		vr.Assume(p >= 0)
		vs.SetNodePods(w.node, p)
		w.alloc = float64(p)
	}
	mk := func(name string, st pod_status.PodStatus, node string) *pod_info.PodInfo {
		var c, g, req float64
		switch w.dim {
		case 0:
			c = vr.AnyFloatNat(name+".cpu", 30)
			vr.Assume(c >= 10) // below 10 milli-cpu the scheduler treats the request as best-effort (by design)
			req = c
		case 1:
			g = vr.AnyFloatNat(name+".gpus", 10)
			vr.Assume(g >= 1)
			req = g
		default:
			req = 1
			if !w.bestEffort {
				c = 100
			}
		}
		t := vs.NewTask(name, "job-"+name, "", c, 1000, vs.GpuSpec{Kind: 0, Whole: g}, st, node, vm)
		w.reqs[t.UID] = req
		w.tasks = append(w.tasks, t)
		return t
	}
	jobs := map[common_info.PodGroupID]*podgroup_info.PodGroupInfo{}
	for i := 0; i < existing; i++ {
		name := vs.Name("e", i)
		st := statuses[vr.Choose(name+".status", len(statuses))]
		t := mk(name, st, "n1")
		j := vs.NewJob("job-"+name, "q0", true, 0, 1, vm, t)
		jobs[j.UID] = j
		// the snapshot's way of charging pods to their node (it skips pods that do not occupy it)
		w.node.AddTasksToNode([]*pod_info.PodInfo{t}, map[common_info.PodID]*pod_info.PodInfo{})
	}
	for i := 0; i < newTasks; i++ {
		name := vs.Name("new", i)
		t := mk(name, pod_status.Pending, "")
		j := vs.NewJob("job-"+name, "q0", true, 0, 1, vm, t)
		jobs[j.UID] = j
	}
	// reachable node states: nothing oversubscribed yet, nominated pods fit on idle + releasing
	vr.Assume(w.get(w.node.Idle) >= 0)
	vr.Assume(w.get(w.node.Idle)+w.get(w.node.Releasing) >= 0)
	w.cache = &c01Cache{}
	w.ssn = &framework.Session{ClusterInfo: &api.ClusterInfo{Nodes: map[string]*node_info.NodeInfo{"n1": w.node}, PodGroupInfos: jobs}, Cache: w.cache}
	return w
}

// occupied recomputes, from the pod list only, what occupies the node in the symbolic dimension:
// every pod that is running, terminating, bound, being bound or allocated (nominated ones do not
// occupy capacity yet).
func (w *c01World) occupied() float64 {
	sum := 0.0
	for _, t := range w.tasks {
		if t.NodeName != "n1" {
			continue
		}
		switch t.Status {
		case pod_status.Running, pod_status.Releasing, pod_status.Bound, pod_status.Binding, pod_status.Allocated:
			sum += w.reqs[t.UID]
		}
	}
	return sum
}

var c01Statuses = []pod_status.PodStatus{pod_status.Running, pod_status.Releasing, pod_status.Allocated, pod_status.Pipelined, pod_status.Bound, pod_status.Binding}

// VerifC01_AllocateCommit: on a node holding 0..2 pods in any mix of running / terminating /
// allocated-this-cycle / nominated / bound / being bound (charged the way the snapshot does), 1..2 new tasks are placed by the real Session.FittingNode +
// allocateTaskToNode and the statement is committed against a cache whose Bind may fail.
// BOUND: 1 node; 0..2 existing pods; 1 new task (quick) / 2 new tasks in sequence (thorough); one symbolic dimension (milli-cpu in [10, 2^30), whole GPUs < 2^10, pod slots < 2^10 with regular pods, pod slots with best-effort pods); at most one Bind fault
// ASSUME: pre-state reachable: idle >= 0 and idle + releasing >= 0 in the symbolic dimension
func VerifC01_AllocateCommit() {
	c01AllocateCommit(vr.Choose("existing", 3), vr.Bound("newTasks", 1, 2))
}

// VerifC01_CommitWithFailingBind: two new tasks are placed in one statement and committed; the Bind
// of either may fail. Whatever Bind calls the cluster accepted keep their capacity: the scheduler's
// idle view of the node never exceeds what is truly free.
// BOUND: 1 node; 0..1 existing pods; 2 new tasks in one statement; one symbolic dimension; at most one Bind fault
// ASSUME: pre-state reachable: idle >= 0 and idle + releasing >= 0 in the symbolic dimension
func VerifC01_CommitWithFailingBind() {
	c01AllocateCommit(vr.Choose("existing", 2), 2)
}

func c01AllocateCommit(nExisting, nNew int) {
	w := c01Build(nExisting, c01Statuses, nNew)
	stmt := w.ssn.Statement()
	idle0, used0, rel0 := w.get(w.node.Idle), w.get(w.node.Used), w.get(w.node.Releasing)
	fitsIdle := make([]bool, 0, nNew)
	placed := 0
	for _, t := range w.tasks[nExisting:] {
		if !w.ssn.FittingNode(t, w.node, true) {
			break
		}
		fitsIdle = append(fitsIdle, w.reqs[t.UID] <= w.get(w.node.Idle))
		if !allocateTaskToNode(w.ssn, stmt, t, w.node, false) {
			break
		}
		placed++
	}
	vr.Observe("placed", placed)
	// capacity that is only terminating is never handed to a bind
	for i := 0; i < placed; i++ {
		t := w.tasks[nExisting+i]
		if !fitsIdle[i] {
			if w.bestEffort {
				vr.Assert(t.Status == pod_status.Pipelined, "C01.needs-releasing-capacity-is-only-nominated#best-effort-pod-slot")
			} else {
				vr.Assert(t.Status == pod_status.Pipelined, "C01.needs-releasing-capacity-is-only-nominated")
			}
		}
	}
	err := stmt.Commit()
	vr.Observe("binds", len(w.cache.binds))
	vr.Observe("commitFailed", err != nil)
	// (a) whatever was bound, the node is not oversubscribed by occupying pods
	if w.bestEffort {
		vr.Assert(w.occupied() <= w.alloc, "C01.occupying-pods-within-allocatable#best-effort-pod-slot")
	} else {
		vr.Assert(w.occupied() <= w.alloc, "C01.occupying-pods-within-allocatable")
	}
	for _, b := range w.cache.binds {
		for i := 0; i < placed; i++ {
			t := w.tasks[nExisting+i]
			if string(t.UID) == b {
				if w.bestEffort {
					vr.Assert(fitsIdle[i], "C01.bound-only-on-idle-capacity#best-effort-pod-slot")
				} else {
					vr.Assert(fitsIdle[i], "C01.bound-only-on-idle-capacity")
				}
			}
		}
	}
	// (b) pods whose Bind the cluster accepted occupy the node whatever the scheduler did afterwards
	// (e.g. on the failure path of a later Bind in the same statement): the idle capacity the
	// scheduler goes on to use never exceeds what is truly free
	truth := 0.0
	for i, t := range w.tasks {
		if i < nExisting {
			if t.NodeName == "n1" && t.Status != pod_status.Pipelined {
				truth += w.reqs[t.UID]
			}
			continue
		}
		for _, b := range w.cache.binds {
			if string(t.UID) == b {
				truth += w.reqs[t.UID]
			}
		}
	}
	if w.bestEffort {
		vr.Assert(w.get(w.node.Idle) <= w.alloc-truth, "C01.idle-view-within-truly-free-capacity#best-effort-pod-slot")
	} else {
		vr.Assert(w.get(w.node.Idle) <= w.alloc-truth, "C01.idle-view-within-truly-free-capacity")
	}
	// (c) a failed bind leaves no trace of the failed pod on the node
	if err != nil && placed == 1 {
		vr.Assert(w.get(w.node.Idle) == idle0 && w.get(w.node.Used) == used0 && w.get(w.node.Releasing) == rel0, "C01.failed-bind-restores-node")
	}
}
