package common

import (
	v1 "k8s.io/api/core/v1"
	metav1 "k8s.io/apimachinery/pkg/apis/meta/v1"
	"k8s.io/apimachinery/pkg/types"

	commonconstants "github.com/NVIDIA/KAI-scheduler/pkg/common/constants"
	"github.com/NVIDIA/KAI-scheduler/pkg/scheduler/api"
	"github.com/NVIDIA/KAI-scheduler/pkg/scheduler/api/common_info"
	"github.com/NVIDIA/KAI-scheduler/pkg/scheduler/api/node_info"
	"github.com/NVIDIA/KAI-scheduler/pkg/scheduler/api/pod_info"
	"github.com/NVIDIA/KAI-scheduler/pkg/scheduler/api/pod_status"
	"github.com/NVIDIA/KAI-scheduler/pkg/scheduler/api/podgroup_info"
	"github.com/NVIDIA/KAI-scheduler/pkg/scheduler/api/resource_info"
	"github.com/NVIDIA/KAI-scheduler/pkg/scheduler/framework"
	vs "github.com/NVIDIA/KAI-scheduler/pkg/scheduler/zz_verifsched"
	vr "github.com/NVIDIA/KAI-scheduler/pkg/zz_verifrt"
)

// VerifC10_GpuAnnotationsNeverPanic: a pod whose GPU-sharing annotations hold ARBITRARY content -
// (in the sibling harness) the gpu-fraction any result strconv.ParseFloat can give (NaN, infinities,
// negative, huge, or an error), gpu-memory and gpu-fraction-num-devices any byte string of length 1..3 pushed
// through the real ParseInt - is turned into a PodInfo by the real constructor and offered to a
// node (0..2 GPUs; device memory 0, 100 or 16000 MiB - i.e. without or with the GPU labels) through
// the real FittingNode, allocateTaskToNode (shared-GPU placement, FittingGPUs, node accounting) and
// Commit, next to a healthy pending pod. Nothing may panic or loop, and the healthy pod is placed.
// BOUND: annotation presence explored; strings of 1..2 (quick) / 1..3 (thorough) arbitrary bytes; 1 node with 1 GPU (quick) / 0..2 GPUs (thorough), device memory 0 or 16000 (quick) / also 100 (thorough); loops bounded at 512 iterations
func VerifC10_GpuAnnotationsNeverPanic() {
	c10GpuAnnotations(false)
}

// VerifC10_GpuFractionValueNeverPanics: the same with the gpu-fraction annotation ranging over every
// result of strconv.ParseFloat (floating-point theory) and the other two annotations absent or "2".
// BOUND: as VerifC10_GpuAnnotationsNeverPanic with concrete gpu-memory / num-devices
func VerifC10_GpuFractionValueNeverPanics_Thorough() {
	c10GpuAnnotations(true)
}

func c10GpuAnnotations(symbolicFraction bool) {
	vr.NoPanic("C10.gpu-annotations-never-panic")
	vr.SetUnwind(512)
	vm := resource_info.NewResourceVectorMap()
	G := 1
	if n := vr.Bound("gpuCounts", 1, 3); n > 1 {
		G = vr.Choose("gpus", n)
	}
	T := []int64{0, 16000, 100}[vr.Choose("gpuMemory", vr.Bound("gpuMemories", 2, 3))]
	maxLen := vr.Bound("annotationLen", 2, 3)
	node := vs.NewNode("n1", 4000, 1<<40, float64(G), 110, T, vm)
	pod := &v1.Pod{ObjectMeta: metav1.ObjectMeta{Name: "bad", Namespace: "ns", UID: types.UID("bad"),
		Annotations: map[string]string{commonconstants.PodGroupAnnotationForPod: "job-bad"}, Labels: map[string]string{}}}
	pod.Spec.Containers = []v1.Container{{Name: "c"}}
	pod.Status.Phase = v1.PodPending
	if symbolicFraction {
		pod.Annotations[commonconstants.GpuFraction] = vr.FloatString("fraction")
		if vr.AnyBool("hasDevices") {
			pod.Annotations[commonconstants.GpuFractionsNumDevices] = "2"
		}
	} else {
		if vr.AnyBool("hasFraction") {
			pod.Annotations[commonconstants.GpuFraction] = "0.5"
		}
		if vr.AnyBool("hasMemory") {
			pod.Annotations[commonconstants.GpuMemory] = vr.AnyString("memory", vr.Choose("memoryLen", maxLen)+1)
		}
		if vr.AnyBool("hasDevices") {
			pod.Annotations[commonconstants.GpuFractionsNumDevices] = vr.AnyString("devices", vr.Choose("devicesLen", maxLen)+1)
		}
	}
	bad := pod_info.NewTaskInfo(pod, nil, vm)
	badJob := vs.NewJob("job-bad", "q0", true, 0, 1, vm, bad)
	good := vs.NewTask("good", "job-good", "", 100, 1000, vs.GpuSpec{}, pod_status.Pending, "", vm)
	goodJob := vs.NewJob("job-good", "q0", true, 0, 1, vm, good)
	ch := &c01Cache{}
	ssn := &framework.Session{ClusterInfo: &api.ClusterInfo{Nodes: map[string]*node_info.NodeInfo{"n1": node},
		PodGroupInfos: map[common_info.PodGroupID]*podgroup_info.PodGroupInfo{badJob.UID: badJob, goodJob.UID: goodJob}}, Cache: ch}
	for _, t := range []*pod_info.PodInfo{bad, good} {
		stmt := ssn.Statement()
		if ssn.FittingNode(t, node, true) && allocateTaskToNode(ssn, stmt, t, node, false) {
			if stmt.Commit() != nil {
				vr.Stop()
			}
		} else {
			stmt.Discard()
		}
	}
	vr.Observe("badStatus", bad.Status.String())
	vr.Assert(good.Status != pod_status.Pending, "C10.healthy-pod-next-to-a-malformed-one-is-placed")
}
