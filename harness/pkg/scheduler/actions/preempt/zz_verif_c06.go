package preempt

import (
	"time"

	metav1 "k8s.io/apimachinery/pkg/apis/meta/v1"

	"github.com/NVIDIA/KAI-scheduler/pkg/scheduler/api"
	"github.com/NVIDIA/KAI-scheduler/pkg/scheduler/api/common_info"
	"github.com/NVIDIA/KAI-scheduler/pkg/scheduler/api/pod_status"
	"github.com/NVIDIA/KAI-scheduler/pkg/scheduler/api/podgroup_info"
	"github.com/NVIDIA/KAI-scheduler/pkg/scheduler/api/queue_info"
	"github.com/NVIDIA/KAI-scheduler/pkg/scheduler/api/resource_info"
	"github.com/NVIDIA/KAI-scheduler/pkg/scheduler/framework"
	"github.com/NVIDIA/KAI-scheduler/pkg/scheduler/plugins/minruntime"
	vs "github.com/NVIDIA/KAI-scheduler/pkg/scheduler/zz_verifsched"
	vr "github.com/NVIDIA/KAI-scheduler/pkg/zz_verifrt"
)

// c06Queues: a 3-level chain top <- mid <- leaf plus a sibling leaf "other" under mid; every
// queue's preempt / reclaim min-runtime is unset or a symbolic number of hours.
func c06Queues() (map[common_info.QueueID]*queue_info.QueueInfo, map[string]*int64, map[string]*int64) {
	names := []string{"top", "mid", "leaf", "other"}
	parents := map[string]string{"top": "", "mid": "top", "leaf": "mid", "other": "mid"}
	qs := map[common_info.QueueID]*queue_info.QueueInfo{}
	pre, rec := map[string]*int64{}, map[string]*int64{}
	for _, n := range names {
		q := &queue_info.QueueInfo{UID: common_info.QueueID(n), Name: n, ParentQueue: common_info.QueueID(parents[n])}
		if vr.AnyBool(n + ".hasPreemptMinRuntime") {
			h := vr.AnyInt64(n+".preemptMinRuntimeHours", 10)
			vr.Assume(h >= 0)
			q.PreemptMinRuntime = &metav1.Duration{Duration: time.Duration(h) * time.Hour}
			pre[n] = &h
		}
		qs[q.UID] = q
	}
	return qs, pre, rec
}

// VerifC06_PreemptFilter: the real preempt victim filter (buildFilterFuncForPreempt with the real
// minruntime plugin registered through its OnSessionOpen) on a preemptor and a candidate victim
// whose preemptibility, priorities, queues, active pod and start time are inputs.
// BOUND: queue chain of depth 3 (+1 sibling leaf); min-runtimes unset or 0..1023 hours; victim age 0..1023 hours (whole hours); one-pod non-elastic victim
// ASSUME: durations are whole hours (second-level timing of time.Now is not modelled)
func VerifC06_PreemptFilter() {
	qs, pre, _ := c06Queues()
	vm := resource_info.NewResourceVectorMap()
	victimQueue := []string{"leaf", "other"}[vr.Choose("victimQueue", 2)]
	vt := vs.NewTask("v0", "victim", "", 100, 1000, vs.GpuSpec{}, []pod_status.PodStatus{pod_status.Running, pod_status.Pending}[vr.Choose("victimStatus", 2)], "n1", vm)
	victim := vs.NewJob("victim", victimQueue, vr.AnyBool("victimPreemptible"), vr.AnyInt32("victimPriority", 31), 1, vm, vt)
	pt := vs.NewTask("p0", "preemptor", "", 100, 1000, vs.GpuSpec{}, pod_status.Pending, "", vm)
	preemptor := vs.NewJob("preemptor", "leaf", true, vr.AnyInt32("preemptorPriority", 31), 1, vm, pt)
	ageHours := vr.AnyInt64("victimAgeHours", 10)
	vr.Assume(ageHours >= 0)
	started := vr.AnyBool("victimHasStartTime")
	now := time.Now()
	if started {
		st := now.Add(-time.Duration(ageHours) * time.Hour)
		victim.LastStartTimestamp = &st
	}
	ssn := &framework.Session{ClusterInfo: &api.ClusterInfo{Queues: qs, PodGroupInfos: map[common_info.PodGroupID]*podgroup_info.PodGroupInfo{"victim": victim, "preemptor": preemptor}}}
	plugin := minruntime.New(framework.PluginArguments{"defaultPreemptMinRuntime": "2h", "defaultReclaimMinRuntime": "3h"})
	plugin.OnSessionOpen(ssn)

	accepted := buildFilterFuncForPreempt(ssn, preemptor)(victim)
	vr.Observe("accepted", accepted)
	if !accepted {
		return
	}
	vr.Assert(victim.IsPreemptibleJob(), "C06.preempt-victim-preemptible")
	vr.Assert(victim.Queue == preemptor.Queue, "C06.preempt-victim-same-queue")
	vr.Assert(victim.Priority < preemptor.Priority, "C06.preempt-victim-strictly-lower-priority")
	vr.Assert(vt.Status == pod_status.Running, "C06.preempt-victim-has-active-pods")
	// resolved min runtime: nearest queue from the victim's leaf upwards that sets one, else the default (2h)
	resolved := int64(2)
	for _, n := range []string{"top", "mid", victimQueue} {
		if h, ok := pre[n]; ok {
			resolved = *h
		}
	}
	if started {
		vr.Assert(ageHours >= resolved, "C06.preempt-victim-outside-min-runtime")
	}
}
