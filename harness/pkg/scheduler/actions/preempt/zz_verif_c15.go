package preempt

import (
	"github.com/NVIDIA/KAI-scheduler/pkg/scheduler/api"
	"github.com/NVIDIA/KAI-scheduler/pkg/scheduler/api/common_info"
	"github.com/NVIDIA/KAI-scheduler/pkg/scheduler/api/pod_status"
	"github.com/NVIDIA/KAI-scheduler/pkg/scheduler/api/podgroup_info"
	"github.com/NVIDIA/KAI-scheduler/pkg/scheduler/api/queue_info"
	"github.com/NVIDIA/KAI-scheduler/pkg/scheduler/api/resource_info"
	"github.com/NVIDIA/KAI-scheduler/pkg/scheduler/framework"
	vs "github.com/NVIDIA/KAI-scheduler/pkg/scheduler/zz_verifsched"
	vr "github.com/NVIDIA/KAI-scheduler/pkg/zz_verifrt"
)

// VerifC15_PreemptNoPingPong: two workloads can never be each other's preempt victims (the real
// victim filter accepted in both directions is unsatisfiable), whatever their priorities, queues
// and preemptibility.
// BOUND: two one-pod jobs; int32 priorities; queues leaf/other
func VerifC15_PreemptNoPingPong() {
	vm := resource_info.NewResourceVectorMap()
	qs := map[common_info.QueueID]*queue_info.QueueInfo{"leaf": {UID: "leaf", Name: "leaf"}, "other": {UID: "other", Name: "other"}}
	mk := func(name string) *podgroup_info.PodGroupInfo {
		t := vs.NewTask("t-"+name, name, "", 100, 1000, vs.GpuSpec{}, pod_status.Running, "n1", vm)
		q := []string{"leaf", "other"}[vr.Choose(name+".queue", 2)]
		return vs.NewJob(name, q, vr.AnyBool(name+".preemptible"), vr.AnyInt32(name+".priority", 32), 1, vm, t)
	}
	a, b := mk("a"), mk("b")
	ssn := &framework.Session{ClusterInfo: &api.ClusterInfo{Queues: qs, PodGroupInfos: map[common_info.PodGroupID]*podgroup_info.PodGroupInfo{"a": a, "b": b}}}
	ab := buildFilterFuncForPreempt(ssn, a)(b)
	ba := buildFilterFuncForPreempt(ssn, b)(a)
	vr.Cover(ab, "C15.preempt-filter-can-accept")
	vr.Assert(!(ab && ba), "C15.preempt-never-accepted-both-ways")
}
