package priority

import (
	"time"

	metav1 "k8s.io/apimachinery/pkg/apis/meta/v1"

	"github.com/NVIDIA/KAI-scheduler/pkg/scheduler/api/pod_status"
	"github.com/NVIDIA/KAI-scheduler/pkg/scheduler/api/podgroup_info"
	"github.com/NVIDIA/KAI-scheduler/pkg/scheduler/api/resource_info"
	"github.com/NVIDIA/KAI-scheduler/pkg/scheduler/framework"
	"github.com/NVIDIA/KAI-scheduler/pkg/scheduler/plugins/elastic"
	"github.com/NVIDIA/KAI-scheduler/pkg/scheduler/scheduler_util"
	vs "github.com/NVIDIA/KAI-scheduler/pkg/scheduler/zz_verifsched"
	vr "github.com/NVIDIA/KAI-scheduler/pkg/zz_verifrt"
)

// c16Session registers the job order functions in the order of the default configuration
// (priority, then elastic), as the plugins' OnSessionOpen do.
func c16Session() *framework.Session {
	ssn := &framework.Session{}
	ssn.AddJobOrderFn(JobOrderFn)
	ssn.AddJobOrderFn(elastic.JobOrderFn)
	return ssn
}

// c16Job: a ready pending one-pod job (identical pod template and gang shape for all jobs) with
// symbolic priority and creation time.
func c16Job(name string, vm *resource_info.ResourceVectorMap) *podgroup_info.PodGroupInfo {
	t := vs.NewTask("t-"+name, name, "", 1000, 1000, vs.GpuSpec{Whole: 1}, pod_status.Pending, "", vm)
	j := vs.NewJob(name, "q0", true, vr.AnyInt32(name+".priority", 32), 1, vm, t)
	j.CreationTimestamp = metav1.NewTime(time.Unix(vr.AnyInt64(name+".created", 31), 0))
	return j
}

// VerifC16_JobOrder: the session's real job order (Session.JobOrderFn with the real priority and
// elastic order functions and the creation-time / UID tail) on three same-shape pending jobs:
// a strict order in which higher priority comes first and, at equal priority, the older job.
// BOUND: 3 jobs; priorities over the whole int32 range; creation times any second in +-2^31
func VerifC16_JobOrder() {
	vm := resource_info.NewResourceVectorMap()
	ssn := c16Session()
	a, b, c := c16Job("a", vm), c16Job("b", vm), c16Job("c", vm)
	ab, ba := ssn.JobOrderFn(a, b), ssn.JobOrderFn(b, a)
	bc, ac := ssn.JobOrderFn(b, c), ssn.JobOrderFn(a, c)
	vr.Observe("ab", ab)
	vr.Observe("ba", ba)
	vr.Assert(!ssn.JobOrderFn(a, a), "C16.order-irreflexive")
	vr.Assert(!(ab && ba), "C16.order-asymmetric")
	vr.Assert(ab || ba, "C16.order-total-on-distinct-jobs")
	vr.Assert(!(ab && bc) || ac, "C16.order-transitive")
	if a.Priority > b.Priority {
		vr.Assert(ab, "C16.higher-priority-first")
	}
	if a.Priority == b.Priority && a.CreationTimestamp.Time.Before(b.CreationTimestamp.Time) {
		vr.Assert(ab, "C16.older-first-at-equal-priority")
	}
}

// VerifC16_PopOrder: three same-shape jobs pushed in any order into the scheduler's real
// PriorityQueue (container/heap) with the session's real job order are popped highest priority
// first, oldest first among equals - also after a pop / re-push (the pattern of JobsOrderByQueues).
// BOUND: 3 jobs, any push permutation, one optional pop + re-push
func VerifC16_PopOrder() {
	vm := resource_info.NewResourceVectorMap()
	ssn := c16Session()
	jobs := []*podgroup_info.PodGroupInfo{c16Job("a", vm), c16Job("b", vm), c16Job("c", vm)}
	perms := [][]int{{0, 1, 2}, {0, 2, 1}, {1, 0, 2}, {1, 2, 0}, {2, 0, 1}, {2, 1, 0}}
	pq := scheduler_util.NewPriorityQueue(ssn.JobOrderFn, scheduler_util.QueueCapacityInfinite)
	for _, i := range perms[vr.Choose("pushOrder", 6)] {
		pq.Push(jobs[i])
	}
	if vr.Choose("repush", 2) == 1 {
		first := pq.Pop().(*podgroup_info.PodGroupInfo)
		pq.Push(first)
	}
	var out []*podgroup_info.PodGroupInfo
	for !pq.Empty() {
		out = append(out, pq.Pop().(*podgroup_info.PodGroupInfo))
	}
	vr.Assert(len(out) == 3, "C16.queue-returns-every-job")
	for i := 0; i+1 < len(out); i++ {
		x, y := out[i], out[i+1]
		vr.Assert(x.Priority >= y.Priority, "C16.pop-never-lower-priority-before-higher")
		if x.Priority == y.Priority {
			vr.Assert(!y.CreationTimestamp.Time.Before(x.CreationTimestamp.Time), "C16.pop-never-younger-before-older")
		}
	}
}

// VerifC16_BoundedQueueKeepsBest: with a configured queue depth the scheduler considers only that
// many jobs of a queue; the ones it keeps must be the best by the job order (otherwise a lower
// priority / younger job is attempted while a higher-priority / older identical one is not).
// BOUND: 3 jobs, any push permutation, queue depth 1 or 2 (depth-2 class reported separately)
func VerifC16_BoundedQueueKeepsBest() {
	vm := resource_info.NewResourceVectorMap()
	ssn := c16Session()
	jobs := []*podgroup_info.PodGroupInfo{c16Job("a", vm), c16Job("b", vm), c16Job("c", vm)}
	perms := [][]int{{0, 1, 2}, {0, 2, 1}, {1, 0, 2}, {1, 2, 0}, {2, 0, 1}, {2, 1, 0}}
	depth := vr.Choose("depth", 2) + 1
	pq := scheduler_util.NewPriorityQueue(ssn.JobOrderFn, depth)
	for _, i := range perms[vr.Choose("pushOrder", 6)] {
		pq.Push(jobs[i])
	}
	kept := map[*podgroup_info.PodGroupInfo]bool{}
	n := 0
	for !pq.Empty() {
		kept[pq.Pop().(*podgroup_info.PodGroupInfo)] = true
		n++
	}
	vr.Assert(n == depth, "C16.bounded-queue-keeps-depth-jobs")
	class := ""
	if depth >= 2 {
		class = "#depth-above-1"
	}
	for _, d := range jobs {
		if kept[d] {
			continue
		}
		for _, k := range jobs {
			if kept[k] {
				vr.Assert(ssn.JobOrderFn(k, d), "C16.bounded-queue-drops-only-the-worst-jobs"+class)
			}
		}
	}
}
