package proportion

import (
	"time"

	enginev2alpha2 "github.com/NVIDIA/KAI-scheduler/pkg/apis/scheduling/v2alpha2"
	"github.com/NVIDIA/KAI-scheduler/pkg/scheduler/actions/allocate"
	"github.com/NVIDIA/KAI-scheduler/pkg/scheduler/actions/preempt"
	"github.com/NVIDIA/KAI-scheduler/pkg/scheduler/actions/reclaim"
	"github.com/NVIDIA/KAI-scheduler/pkg/scheduler/api/common_info"
	"github.com/NVIDIA/KAI-scheduler/pkg/scheduler/api/pod_info"
	"github.com/NVIDIA/KAI-scheduler/pkg/scheduler/api/pod_status"
	"github.com/NVIDIA/KAI-scheduler/pkg/scheduler/api/resource_info"
	rs "github.com/NVIDIA/KAI-scheduler/pkg/scheduler/plugins/proportion/resource_share"
	vs "github.com/NVIDIA/KAI-scheduler/pkg/scheduler/zz_verifsched"
	vr "github.com/NVIDIA/KAI-scheduler/pkg/zz_verifrt"
)

// VerifC10_ActionsOnMalformedState: a whole cycle (allocate, reclaim, preempt on a real session)
// over a cluster that contains one malformed object: a pod group whose minMember, or whose
// sub-group's minMember, is ANY int32 (negative, zero, huge); a sub-group that is its own parent or
// names a missing parent; pods labelled with an undeclared sub-group; a pod group in a queue that
// does not exist; a queue whose parent does not exist. The cycle must terminate without panicking
// and the healthy workload must still be scheduled.
// BOUND: 1 node; queues d <- qa, qb; healthy pending job h0 and reclaimer r0 in qa; malformed workload m0 in qb with 2 running pods and 1 pending pod; quantities concrete; minMember values symbolic over all of int32; loops bounded at 256 iterations
func VerifC10_ActionsOnMalformedState() {
	vr.NoPanic("C10.cycle-completes-on-malformed-objects")
	vr.SetUnwind(256)
	kind := vr.Choose("malformed", 7)
	w := &actWorld{vm: resource_info.NewResourceVectorMap()}
	w.queues = []actQueue{
		{name: "d", parent: "", deserved: -1, limit: -1},
		{name: "qa", parent: "d", deserved: 300, limit: -1},
		{name: "qb", parent: "d", deserved: 0, limit: -1},
	}
	if kind == 5 {
		w.queues[2].parent = "nowhere" // qb is an orphan and is dropped from the snapshot
	}
	w.addNode("n0", 300)
	run := []pod_status.PodStatus{pod_status.Running, pod_status.Running, pod_status.Pending}
	on := []string{"n0", "n0", ""}
	cpus := []float64{100, 100, 100}
	// the malformed workload
	minMember := int32(1)
	var subGroups []enginev2alpha2.SubGroup
	label := ""
	switch kind {
	case 0:
		minMember = vr.AnyInt32("m0.minMember", 32)
	case 1:
		subGroups = []enginev2alpha2.SubGroup{{Name: "sg", MinMember: vr.AnyInt32("m0.sg.minMember", 32)}}
		label = "sg"
	case 2:
		self, missing := "sg", "absent"
		parent := []*string{&self, &missing}[vr.Choose("m0.sg.parent", 2)]
		subGroups = []enginev2alpha2.SubGroup{{Name: "sg", MinMember: 1, Parent: parent}}
		label = "sg"
	case 3:
		subGroups = []enginev2alpha2.SubGroup{{Name: "sg", MinMember: 1}}
		label = "undeclared"
	}
	var mt []*pod_info.PodInfo
	for i := range cpus {
		mt = append(mt, vs.NewTask(vs.Name("m0-t", i), "m0", label, cpus[i], 0, vs.GpuSpec{}, run[i], on[i], w.vm))
	}
	mq := "qb"
	if kind == 4 {
		mq = "no-such-queue"
	}
	m0 := &actJob{name: "m0", queue: mq, preempt: true, cpu: cpus, tasks: mt}
	m0.job = vs.NewJobWithSubGroups("m0", mq, true, 0, minMember, subGroups, w.vm, mt...)
	started := time.Now().Add(-time.Hour)
	m0.job.LastStartTimestamp = &started
	w.jobs = append(w.jobs, m0)
	// healthy workloads
	h0 := w.addJob("h0", "qa", true, 0, 1, 1, []float64{100}, []pod_status.PodStatus{pod_status.Pending}, []string{""})
	w.addJob("r0", "qa", true, 0, 2, 1, []float64{200}, []pod_status.PodStatus{pod_status.Pending}, []string{""})
	w.open()
	for _, q := range w.queues {
		if attrs := w.pp.queues[common_info.QueueID(q.name)]; attrs != nil {
			w.setFS(attrs, rs.CpuResource, q.deserved)
			if q.name == "d" {
				w.setFS(attrs, rs.CpuResource, 300)
			}
			w.setFS(attrs, rs.GpuResource, 0)
			w.setFS(attrs, rs.MemoryResource, 0)
		}
	}
	allocate.New().Execute(w.ssn)
	vr.Observe("healthyPlacedByAllocate", w.placed(h0))
	reclaim.New().Execute(w.ssn)
	preempt.New().Execute(w.ssn)
	vr.Observe("evicts", len(w.cache.evicts))
	// workloads not touched by the malformed object are still scheduled
	vr.Assert(w.placed(h0), "C10.healthy-workload-still-scheduled")
}
