package reclaimable

import (
	"github.com/NVIDIA/KAI-scheduler/pkg/scheduler/api/common_info"
	"github.com/NVIDIA/KAI-scheduler/pkg/scheduler/api/resource_info"
	rs "github.com/NVIDIA/KAI-scheduler/pkg/scheduler/plugins/proportion/resource_share"
	vr "github.com/NVIDIA/KAI-scheduler/pkg/zz_verifrt"
)

const c07Bits = 12

func c07Queue(name, parent string, active rs.ResourceName) *rs.QueueAttributes {
	return c07QueueBits(name, parent, active, c07Bits)
}

func c07QueueBits(name, parent string, active rs.ResourceName, c07Bits int) *rs.QueueAttributes {
	q := &rs.QueueAttributes{UID: common_info.QueueID(name), Name: name, ParentQueue: common_info.QueueID(parent)}
	for _, r := range rs.AllResources {
		s := q.ResourceShare(r)
		if r != active {
			s.Deserved, s.MaxAllowed = -1, -1
			continue
		}
		n := name + "." + string(r)
		s.Deserved = vr.AnyFloatInt(n+".deserved", c07Bits)
		s.MaxAllowed = vr.AnyFloatInt(n+".limit", c07Bits)
		s.FairShare = vr.AnyFloatNat(n+".fairShare", c07Bits)
		s.Allocated = vr.AnyFloatNat(n+".allocated", c07Bits)
		s.AllocatedNotPreemptible = vr.AnyFloatNat(n+".allocNP", c07Bits)
		vr.Assume(s.Deserved >= -1)
		vr.Assume(s.MaxAllowed >= -1)
		vr.Assume(s.AllocatedNotPreemptible <= s.Allocated)
		// reachable states (C08): allocation within the limit, non-preemptible allocation within deserved quota
		vr.Assume(s.MaxAllowed == -1 || s.Allocated <= s.MaxAllowed)
		vr.Assume(s.Deserved == -1 || s.AllocatedNotPreemptible <= s.Deserved)
		// C09 lower bound: fair share >= min(deserved, request) and request >= allocated
		vr.Assume(s.Deserved == -1 || s.FairShare >= s.Deserved || s.FairShare >= s.Allocated)
	}
	return q
}

func c07Res(active rs.ResourceName, v float64) *resource_info.Resource {
	switch active {
	case rs.CpuResource:
		return resource_info.NewResource(v, 0, 0)
	case rs.MemoryResource:
		return resource_info.NewResource(0, v, 0)
	}
	return resource_info.NewResource(0, 0, v)
}

// c07Allocatable is the oracle's reading of "deserved quota or fair share, capped by the limit".
func c07OverDeservedOrFair(s *rs.ResourceShare, remaining float64) bool {
	overDeserved := s.Deserved != -1 && remaining > s.Deserved
	var overFair bool
	if s.Deserved == -1 {
		overFair = s.MaxAllowed != -1 && remaining > s.MaxAllowed
	} else {
		a := s.Deserved
		if s.FairShare > a {
			a = s.FairShare
		}
		if s.MaxAllowed != -1 && s.MaxAllowed < a {
			a = s.MaxAllowed
		}
		overFair = remaining > a
	}
	return overDeserved || overFair
}

// VerifC07_Reclaim: the real CanReclaimResources + Reclaimable decide a reclaim of 1..2 victims
// from one reclaimee queue; tree A: two sibling top queues (reclaimer R, reclaimee S); tree B:
// reclaimer R under parent P, reclaimee S a top-level sibling of P.
// BOUND: one resource dimension at a time (quick: GPU only; thorough: each of cpu, memory, GPU); all quantities integers < 2^12 (-1 = unlimited for deserved/limit); 1 victim (quick) / 1..2 victims (thorough); saturation multiplier 1 (quick) / 1 or 2 (thorough)
// ASSUME: reachable queue states: 0 <= non-preemptible <= allocated, allocated <= limit and non-preemptible <= deserved where limited (C08), fair share >= 0, child's allocation and fair share <= parent's (C09), victims' resources <= reclaimee's allocation
func VerifC07_Reclaim() {
	// quick: GPU dimension only (the code treats the three resources by one loop); thorough: all three
	active := rs.AllResources[2-vr.Choose("resource", vr.Bound("resources", 1, 3))]
	tree := vr.Choose("tree", 2)
	queues := map[common_info.QueueID]*rs.QueueAttributes{}
	var R, S, P *rs.QueueAttributes
	if tree == 0 {
		R = c07Queue("R", "", active)
		S = c07Queue("S", "", active)
	} else {
		P = c07Queue("P", "", active)
		R = c07Queue("R", "P", active)
		S = c07Queue("S", "", active)
		P.ChildQueues = []common_info.QueueID{"R"}
		queues[P.UID] = P
		vr.Assume(R.ResourceShare(active).Allocated <= P.ResourceShare(active).Allocated)
		vr.Assume(R.ResourceShare(active).AllocatedNotPreemptible <= P.ResourceShare(active).AllocatedNotPreemptible)
		// children divide their parent's fair share (C09)
		vr.Assume(R.ResourceShare(active).FairShare <= P.ResourceShare(active).FairShare)
	}
	queues[R.UID], queues[S.UID] = R, S
	req := vr.AnyFloatNat("req", c07Bits)
	vr.Assume(req > 0)
	preemptible := vr.AnyBool("reclaimerPreemptible")
	nv := vr.Choose("victims", vr.Bound("maxVictims", 1, 2)) + 1
	var victims []*resource_info.Resource
	var vvals []float64
	total := 0.0
	for i := 0; i < nv; i++ {
		v := vr.AnyFloatNat("victim", c07Bits)
		vr.Assume(v > 0)
		total += v
		vvals = append(vvals, v)
		victims = append(victims, c07Res(active, v))
	}
	sS := S.ResourceShare(active)
	vr.Assume(total <= sS.Allocated)
	mult := float64(vr.Choose("multiplier", vr.Bound("multipliers", 1, 2)) + 1)

	r := New(mult)
	info := &ReclaimerInfo{Name: "j", Namespace: "ns", Queue: R.UID, IsPreemptable: preemptible, RequiredResources: c07Res(active, req)}
	can := r.CanReclaimResources(queues, info)
	ok := r.Reclaimable(queues, info, map[common_info.QueueID][]*resource_info.Resource{S.UID: victims})
	vr.Observe("can", can)
	vr.Observe("reclaimable", ok)
	if !can || !ok {
		return
	}
	// (a) every victim was taken from a queue above its deserved quota or above its fair share
	rem := sS.Allocated
	for i := 0; i < nv; i++ {
		vr.Assert(c07OverDeservedOrFair(sS, rem), "C07.victim-queue-above-deserved-or-fair-share")
		rem -= vvals[i]
	}
	// (b) the reclaiming queue stays within its fair share
	sR := R.ResourceShare(active)
	vr.Assert(sR.Allocated+req <= sR.FairShare, "C07.reclaimer-within-fair-share")
	// (c) non-preemptible reclaimer keeps non-preemptible allocation within deserved quota at every level
	if !preemptible {
		vr.Assert(sR.Deserved == -1 || sR.AllocatedNotPreemptible+req <= sR.Deserved, "C07.nonpreemptible-within-deserved@leaf")
		if P != nil {
			sP := P.ResourceShare(active)
			vr.Assert(sP.Deserved == -1 || sP.AllocatedNotPreemptible+req <= sP.Deserved, "C07.nonpreemptible-within-deserved@parent")
		}
	}
	// (d) the reclaimer's ancestor at the level of S does not end above its own fair share and at
	// least as saturated as S (ratios compared by cross-multiplication, independent of the code's division)
	A := sR
	if P != nil {
		A = P.ResourceShare(active)
	}
	aAfter := A.Allocated + req
	sAfter := sS.Allocated - total
	aboveFair := aAfter > A.FairShare
	var atLeastAsSaturated bool
	switch {
	case A.FairShare == 0 && sS.FairShare == 0:
		atLeastAsSaturated = aAfter > 0 || sAfter == 0
	case A.FairShare == 0:
		atLeastAsSaturated = aAfter > 0
	case sS.FairShare == 0:
		atLeastAsSaturated = sAfter == 0
	default:
		atLeastAsSaturated = aAfter*sS.FairShare >= sAfter*A.FairShare
	}
	if sS.FairShare == 0 {
		vr.Assert(!(aboveFair && atLeastAsSaturated), "C07.not-above-fair-share-and-more-saturated#sibling-fair-share-zero")
	} else {
		vr.Assert(!(aboveFair && atLeastAsSaturated), "C07.not-above-fair-share-and-more-saturated")
	}
}

// VerifC07_ReclaimTwoLeafQueues: victims come from two leaf queues S1, S2 of one department D; the
// reclaimer R is a top-level sibling of D, so the level at which the queues diverge is D for both.
// BOUND: GPU dimension; quantities integers < 2^6; one victim from each of S1 and S2; multiplier 1 or 2; leaf queues S1, S2 with quota 0 and no limit; no limits on R and D; preemptible reclaimer
// ASSUME: reachable queue states as in VerifC07_Reclaim; children's allocation sums to at most the department's
func VerifC07_ReclaimTwoLeafQueues() {
	const bits = 6
	active := rs.GpuResource
	R := c07QueueBits("R", "", active, bits)
	D := c07QueueBits("D", "", active, bits)
	S1 := c07QueueBits("S1", "D", active, bits)
	S2 := c07QueueBits("S2", "D", active, bits)
	D.ChildQueues = []common_info.QueueID{"S1", "S2"}
	queues := map[common_info.QueueID]*rs.QueueAttributes{"R": R, "D": D, "S1": S1, "S2": S2}
	sD, s1, s2 := D.ResourceShare(active), S1.ResourceShare(active), S2.ResourceShare(active)
	vr.Assume(s1.Allocated+s2.Allocated <= sD.Allocated)
	vr.Assume(s1.FairShare+s2.FairShare <= sD.FairShare)
	// the leaf queues' own quotas and limits play no role at the department level
	vr.Assume(s1.Deserved == 0 && s2.Deserved == 0 && s1.MaxAllowed == -1 && s2.MaxAllowed == -1 && R.ResourceShare(active).MaxAllowed == -1 && sD.MaxAllowed == -1)
	vr.Assume(s1.AllocatedNotPreemptible == 0 && s2.AllocatedNotPreemptible == 0)
	req := vr.AnyFloatNat("req", bits)
	vr.Assume(req > 0)
	v1 := vr.AnyFloatNat("victim1", bits)
	v2 := vr.AnyFloatNat("victim2", bits)
	vr.Assume(v1 > 0 && v2 > 0 && v1 <= s1.Allocated && v2 <= s2.Allocated)
	mult := float64(vr.Choose("multiplier", 2) + 1) // configured reclaimer saturation multiplier 1 or 2
	r := New(mult)
	info := &ReclaimerInfo{Name: "j", Namespace: "ns", Queue: R.UID, IsPreemptable: true, RequiredResources: c07Res(active, req)}
	can := r.CanReclaimResources(queues, info)
	ok := r.Reclaimable(queues, info, map[common_info.QueueID][]*resource_info.Resource{
		S1.UID: {c07Res(active, v1)}, S2.UID: {c07Res(active, v2)}})
	vr.Observe("can", can)
	vr.Observe("reclaimable", ok)
	if !can || !ok {
		return
	}
	// whatever order the two victims were taken in, the department was above its deserved quota or
	// its fair share just before the last one; the larger victim taken last is the most favourable order
	larger := v1
	if v2 > larger {
		larger = v2
	}
	final := sD.Allocated - v1 - v2
	vr.Assert(c07OverDeservedOrFair(sD, final+larger), "C07.department-above-deserved-or-fair-share-before-its-last-victim")
	// clause (d) between the reclaimer's top-level queue and the department it took from; a configured
	// multiplier above 1 may only make the code stricter
	if sD.FairShare > 0 {
		sR := R.ResourceShare(active)
		vr.Assert(c07NotMoreSaturated(sR.Allocated+req, sR.FairShare, final, sD.FairShare), "C07.reclaimer-not-above-fair-share-and-more-saturated-than-victim-department")
	}
}

// c07NotMoreSaturated: the oracle of clause (d) - after the reclaim the queue A (allocation aAfter,
// fair share aFS) is not both above its fair share and at least as saturated as the sibling S it took
// from (ratios compared by cross-multiplication).
func c07NotMoreSaturated(aAfter, aFS, sAfter, sFS float64) bool {
	aboveFair := aAfter > aFS
	var atLeastAsSaturated bool
	switch {
	case aFS == 0 && sFS == 0:
		atLeastAsSaturated = aAfter > 0 || sAfter == 0
	case aFS == 0:
		atLeastAsSaturated = aAfter > 0
	case sFS == 0:
		atLeastAsSaturated = sAfter == 0
	default:
		atLeastAsSaturated = aAfter*sFS >= sAfter*aFS
	}
	return !(aboveFair && atLeastAsSaturated)
}

// VerifC07_ReclaimWithinAndAcrossDepartments: one scenario with two victims - one in the reclaimer's
// own department (leaf P2, sibling of the reclaimer's leaf P1 under D1) and one in another
// department (leaf P3 under D2): the shared ancestor D1 must be judged with its true remaining
// allocation.
// BOUND: GPU dimension; quantities integers < 2^6; tree D1 <- P1, P2 ; D2 <- P3; one victim from P2 and one from P3; multiplier 1; no limits; preemptible reclaimer
// ASSUME: reachable queue states as in VerifC07_Reclaim; children's allocations and fair shares sum to at most the department's; sibling fair shares positive (the zero-fair-share sibling is the recorded finding of VerifC07_Reclaim)
func VerifC07_ReclaimWithinAndAcrossDepartments() {
	const bits = 6
	active := rs.GpuResource
	D1 := c07QueueBits("D1", "", active, bits)
	D2 := c07QueueBits("D2", "", active, bits)
	P1 := c07QueueBits("P1", "D1", active, bits)
	P2 := c07QueueBits("P2", "D1", active, bits)
	P3 := c07QueueBits("P3", "D2", active, bits)
	D1.ChildQueues = []common_info.QueueID{"P1", "P2"}
	D2.ChildQueues = []common_info.QueueID{"P3"}
	queues := map[common_info.QueueID]*rs.QueueAttributes{"D1": D1, "D2": D2, "P1": P1, "P2": P2, "P3": P3}
	d1, d2, p1, p2, p3 := D1.ResourceShare(active), D2.ResourceShare(active), P1.ResourceShare(active), P2.ResourceShare(active), P3.ResourceShare(active)
	for _, s := range []*rs.ResourceShare{d1, d2, p1, p2, p3} {
		vr.Assume(s.MaxAllowed == -1 && s.AllocatedNotPreemptible == 0)
	}
	vr.Assume(p1.Allocated+p2.Allocated <= d1.Allocated && p3.Allocated <= d2.Allocated)
	vr.Assume(p1.FairShare+p2.FairShare <= d1.FairShare && p3.FairShare <= d2.FairShare)
	vr.Assume(d2.FairShare > 0 && p2.FairShare > 0)
	req := vr.AnyFloatNat("req", bits)
	v2 := vr.AnyFloatNat("victim2", bits)
	v3 := vr.AnyFloatNat("victim3", bits)
	vr.Assume(req > 0 && v2 > 0 && v3 > 0 && v2 <= p2.Allocated && v3 <= p3.Allocated)
	r := New(1)
	info := &ReclaimerInfo{Name: "j", Namespace: "ns", Queue: P1.UID, IsPreemptable: true, RequiredResources: c07Res(active, req)}
	can := r.CanReclaimResources(queues, info)
	ok := r.Reclaimable(queues, info, map[common_info.QueueID][]*resource_info.Resource{
		P2.UID: {c07Res(active, v2)}, P3.UID: {c07Res(active, v3)}})
	vr.Observe("can", can)
	vr.Observe("reclaimable", ok)
	if !can || !ok {
		return
	}
	// department level: D1 (receives req, loses v2) against D2 (loses v3)
	vr.Assert(c07NotMoreSaturated(d1.Allocated+req-v2, d1.FairShare, d2.Allocated-v3, d2.FairShare), "C07.reclaimers-department-not-above-fair-share-and-more-saturated-than-victim-department")
	// leaf level inside D1: P1 (receives req) against P2 (loses v2)
	vr.Assert(c07NotMoreSaturated(p1.Allocated+req, p1.FairShare, p2.Allocated-v2, p2.FairShare), "C07.reclaimers-queue-not-above-fair-share-and-more-saturated-than-sibling-queue")
}

// VerifC07_AncestorSaturationWithMultiplier: clause (d) with a configured reclaimer saturation
// multiplier of 2: the multiplier may only make the comparison stricter, so the reclaimer's ancestor
// P still never ends above its fair share and at least as saturated as the sibling S it took from.
// BOUND: GPU dimension; quantities integers < 2^6; tree P <- R (reclaimer), S top-level sibling of P; one victim; multiplier 2; no limits; preemptible reclaimer
// ASSUME: reachable queue states as in VerifC07_Reclaim; sibling fair share positive
func VerifC07_AncestorSaturationWithMultiplier() {
	c07AncestorSaturation("C07.ancestor-not-above-fair-share-and-more-saturated-with-multiplier-2")
}

// VerifC15_AncestorSaturationGuard: the same kernel as the mechanism of C15: a reclaim that leaves
// the reclaimer's department above its fair share and at least as saturated as the department it
// took from is what lets the two departments take from each other in turn.
// BOUND: as VerifC07_AncestorSaturationWithMultiplier
// ASSUME: as VerifC07_AncestorSaturationWithMultiplier
func VerifC15_AncestorSaturationGuard() {
	c07AncestorSaturation("C15.reclaim-leaves-reclaimers-department-less-saturated-than-its-victim")
}

func c07AncestorSaturation(id string) {
	const bits = 6
	active := rs.GpuResource
	P := c07QueueBits("P", "", active, bits)
	R := c07QueueBits("R", "P", active, bits)
	S := c07QueueBits("S", "", active, bits)
	P.ChildQueues = []common_info.QueueID{"R"}
	queues := map[common_info.QueueID]*rs.QueueAttributes{"P": P, "R": R, "S": S}
	sP, sR, sS := P.ResourceShare(active), R.ResourceShare(active), S.ResourceShare(active)
	for _, s := range []*rs.ResourceShare{sP, sR, sS} {
		vr.Assume(s.MaxAllowed == -1 && s.AllocatedNotPreemptible == 0)
	}
	vr.Assume(sR.Allocated <= sP.Allocated && sR.FairShare <= sP.FairShare && sS.FairShare > 0)
	req := vr.AnyFloatNat("req", bits)
	v := vr.AnyFloatNat("victim", bits)
	vr.Assume(req > 0 && v > 0 && v <= sS.Allocated)
	r := New(2)
	info := &ReclaimerInfo{Name: "j", Namespace: "ns", Queue: R.UID, IsPreemptable: true, RequiredResources: c07Res(active, req)}
	can := r.CanReclaimResources(queues, info)
	ok := r.Reclaimable(queues, info, map[common_info.QueueID][]*resource_info.Resource{S.UID: {c07Res(active, v)}})
	vr.Observe("can", can)
	vr.Observe("reclaimable", ok)
	if !can || !ok {
		return
	}
	vr.Assert(c07NotMoreSaturated(sP.Allocated+req, sP.FairShare, sS.Allocated-v, sS.FairShare), id)
}
