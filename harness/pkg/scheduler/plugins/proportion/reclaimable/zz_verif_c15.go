package reclaimable

import (
	"github.com/NVIDIA/KAI-scheduler/pkg/scheduler/api/common_info"
	"github.com/NVIDIA/KAI-scheduler/pkg/scheduler/api/resource_info"
	rs "github.com/NVIDIA/KAI-scheduler/pkg/scheduler/plugins/proportion/resource_share"
	vr "github.com/NVIDIA/KAI-scheduler/pkg/zz_verifrt"
)

// c15PingPong runs the reclaim decision twice: queue R reclaims victim v from its sibling S for a
// job requesting r; the transfer is applied to the queue attributes; then the evicted workload
// (request v, in S) tries to reclaim the newly placed one (r, in R). Returns whether both were accepted.
func c15PingPong(mult float64) (first, second bool) {
	active := rs.GpuResource
	R := c07Queue("R", "", active)
	S := c07Queue("S", "", active)
	queues := map[common_info.QueueID]*rs.QueueAttributes{R.UID: R, S.UID: S}
	r := vr.AnyFloatNat("r", c07Bits)
	v := vr.AnyFloatNat("v", c07Bits)
	vr.Assume(r > 0 && v > 0)
	sR, sS := R.ResourceShare(active), S.ResourceShare(active)
	vr.Assume(v <= sS.Allocated)
	// the reclaimer is only ever placed within its queue's limit (capacity policy, C08)
	vr.Assume(sR.MaxAllowed == -1 || sR.Allocated+r <= sR.MaxAllowed)
	rec := New(mult)
	infoR := &ReclaimerInfo{Name: "a", Namespace: "ns", Queue: R.UID, IsPreemptable: true, RequiredResources: c07Res(active, r)}
	first = rec.CanReclaimResources(queues, infoR) &&
		rec.Reclaimable(queues, infoR, map[common_info.QueueID][]*resource_info.Resource{S.UID: {c07Res(active, v)}})
	if !first {
		return first, false
	}
	// the decision is applied: R gains r, S loses v (both workloads preemptible)
	sR.Allocated += r
	sS.Allocated -= v
	infoS := &ReclaimerInfo{Name: "b", Namespace: "ns", Queue: S.UID, IsPreemptable: true, RequiredResources: c07Res(active, v)}
	second = rec.CanReclaimResources(queues, infoS) &&
		rec.Reclaimable(queues, infoS, map[common_info.QueueID][]*resource_info.Resource{R.UID: {c07Res(active, r)}})
	return first, second
}

// VerifC15_ReclaimNoPingPong: with a saturation multiplier >= 1 the real reclaim decision is never
// accepted in both directions between the same two workloads of two sibling queues (the length-2
// eviction cycle).
// BOUND: two sibling queues, one victim each way, GPU dimension, integers < 2^12, multiplier 1 or 2
// ASSUME: reachable queue states as in VerifC07_Reclaim; the reclaimer's placement respects its queue limit (C08); both workloads preemptible
func VerifC15_ReclaimNoPingPong() {
	mult := float64(vr.Choose("multiplier", 2) + 1)
	first, second := c15PingPong(mult)
	vr.Cover(first, "C15.first-reclaim-can-be-accepted")
	vr.Observe("first", first)
	vr.Observe("second", second)
	vr.Assert(!(first && second), "C15.reclaim-never-accepted-both-ways")
}
