package proportion

import (
	"github.com/NVIDIA/KAI-scheduler/pkg/scheduler/api"
	"github.com/NVIDIA/KAI-scheduler/pkg/scheduler/api/common_info"
	"github.com/NVIDIA/KAI-scheduler/pkg/scheduler/api/eviction_info"
	"github.com/NVIDIA/KAI-scheduler/pkg/scheduler/api/node_info"
	"github.com/NVIDIA/KAI-scheduler/pkg/scheduler/api/pod_status"
	"github.com/NVIDIA/KAI-scheduler/pkg/scheduler/api/podgroup_info"
	"github.com/NVIDIA/KAI-scheduler/pkg/scheduler/api/resource_info"
	"github.com/NVIDIA/KAI-scheduler/pkg/scheduler/framework"
	"github.com/NVIDIA/KAI-scheduler/pkg/scheduler/gpu_sharing"
	rs "github.com/NVIDIA/KAI-scheduler/pkg/scheduler/plugins/proportion/resource_share"
	vs "github.com/NVIDIA/KAI-scheduler/pkg/scheduler/zz_verifsched"
	vr "github.com/NVIDIA/KAI-scheduler/pkg/zz_verifrt"
)

// VerifC14_GpuMemoryTaskAcrossNodes: a GPU-memory request (500 MiB) is worth a different share of a
// GPU on nodes with different device memory (1000 MiB on n0: half a GPU; 2000 MiB on n1: a quarter).
// Every program of statement operations over that pod - evict, un-evict, nominate / allocate on
// either node through the real gpu_sharing placement, checkpoint, rollback - keeps the queues'
// allocated GPU share equal to what the pod is worth on the node it currently occupies, and the
// shared-GPU memory maps equal to the pod's memory on its groups; Discard restores everything.
// BOUND: 2 nodes (2 GPUs each; device memory 1000 / 2000 MiB), one GPU-memory pod (500 MiB, 1 device) initially pending or running on either node, programs of 3 (quick) / 4 (thorough) operations; quantities concrete (structure exploration), queue chain q0 <- q1
func VerifC14_GpuMemoryTaskAcrossNodes() {
	vm := resource_info.NewResourceVectorMap()
	mems := []int64{1000, 2000}
	var nodeList []*node_info.NodeInfo
	nodes := map[string]*node_info.NodeInfo{}
	for i, m := range mems {
		n := vs.NewNode(vs.Name("n", i), 1<<30, 1<<40, 2, 110, m, vm)
		nodeList = append(nodeList, n)
		nodes[n.Name] = n
	}
	start := vr.Choose("start", 3) // 0 pending, 1 running on n0, 2 running on n1
	st, on := pod_status.Pending, ""
	var groups []string
	if start > 0 {
		st, on, groups = pod_status.Running, nodeList[start-1].Name, []string{"g-start"}
	}
	f := vs.NewTask("f0", "job0", "", 100, 0, vs.GpuSpec{Kind: 2, MemMiB: 500, Devices: 1}, st, on, vm)
	f.GPUGroups = groups
	preemptible := vr.AnyBool("preemptible")
	job := vs.NewJob("job0", "q0", preemptible, 0, 1, vm, f)
	if on != "" {
		if err := nodes[on].AddTask(f); err != nil {
			panic(err)
		}
	}
	cache := &stCache{}
	ssn := &framework.Session{ClusterInfo: &api.ClusterInfo{Nodes: nodes, PodGroupInfos: map[common_info.PodGroupID]*podgroup_info.PodGroupInfo{job.UID: job}}, Cache: cache}
	pp := &proportionPlugin{queues: stQueues()}
	pp.updateQueuesCurrentResourceUsage(ssn)
	ssn.AddEventHandler(&framework.EventHandler{AllocateFunc: pp.allocateHandlerFn(ssn), DeallocateFunc: pp.deallocateHandlerFn(ssn)})

	worth := func() float64 { // what the pod is worth, in GPUs, where it is now
		if !pod_status.IsActiveAllocatedStatus(f.Status) {
			return 0
		}
		return 500 / float64(nodes[f.NodeName].MemoryOfEveryGpuOnNode)
	}
	evicted := false
	truth := func(tag string) {
		for _, q := range []common_info.QueueID{"q0", "q1"} {
			s := pp.queues[q].ResourceShare(rs.GpuResource)
			vr.Assert(s.Allocated == worth(), "C14.queue-gpu-share-of-gpu-memory-pod-follows-its-node-after-"+tag)
			np := worth()
			if preemptible {
				np = 0
			}
			vr.Assert(s.AllocatedNotPreemptible == np, "C14.queue-non-preemptible-gpu-share-follows-its-node-after-"+tag)
		}
		for _, n := range nodeList {
			if evicted {
				break // an evicted pod re-placed elsewhere still holds (releasing) memory on its old node
			}
			var want int64
			if f.NodeName == n.Name && pod_status.IsActiveUsedStatus(f.Status) {
				want = 500
			}
			var got int64
			for _, v := range n.UsedSharedGPUsMemory {
				got += v
			}
			vr.Assert(got == want, "C14.shared-gpu-memory-equals-the-pods-memory-after-"+tag)
		}
	}
	truth("snapshot")
	q0Before := pp.queues["q0"].GPU.Allocated
	live := func(n *node_info.NodeInfo) int { // groups with memory in use
		c := 0
		for _, v := range n.UsedSharedGPUsMemory {
			if v != 0 {
				c++
			}
		}
		return c
	}
	usedBefore := [2]int{live(nodeList[0]), live(nodeList[1])}
	idleBefore := [2]float64{nodeList[0].Idle.GPUs(), nodeList[1].Idle.GPUs()}
	stmt := ssn.Statement()
	var cps []framework.Checkpoint
	L := vr.Bound("fracOps", 3, 4)
	for i := 0; i < L; i++ {
		op := vr.Choose(vs.Name("op", i), 6)
		tag := ""
		switch op {
		case 0: // evict
			if !pod_status.IsActiveAllocatedStatus(f.Status) || f.IsVirtualStatus {
				vr.Stop()
			}
			if stmt.Evict(f, "verif", eviction_info.EvictionMetadata{}) != nil {
				vr.Stop()
			}
			tag = "evict"
			evicted = true
		case 1: // un-evict
			if !(f.Status == pod_status.Releasing && f.IsVirtualStatus) {
				vr.Stop()
			}
			if stmt.Unevict(f) != nil {
				vr.Stop()
			}
			tag = "unevict"
		case 2, 3: // place (what-if: nominate only / real) on a node through the real shared-GPU placement
			if f.Status != pod_status.Pending && !(f.Status == pod_status.Releasing && f.IsVirtualStatus) {
				vr.Stop()
			}
			pipelineOnly := op == 2
			if f.Status == pod_status.Releasing && !pipelineOnly {
				vr.Stop() // an evicted pod is only ever re-placed by the what-if solvers
			}
			n := nodeList[vr.Choose(vs.Name("node", i), 2)]
			if !gpu_sharing.AllocateFractionalGPUTaskToNode(ssn, stmt, f, n, pipelineOnly) {
				vr.Stop()
			}
			tag = "place"
		case 4:
			cps = append(cps, stmt.Checkpoint())
			continue
		case 5:
			if len(cps) == 0 {
				vr.Stop()
			}
			if stmt.Rollback(cps[len(cps)-1]) != nil {
				vr.Stop()
			}
			tag = "rollback"
		}
		truth(tag)
	}
	stmt.Discard()
	truth("discard")
	vr.Assert(pp.queues["q0"].GPU.Allocated == q0Before, "C13.discard-restores-queue-share-of-gpu-memory-pod")
	for i, n := range nodeList {
		// (a group key whose memory is back to zero may stay in the map: every reader skips zero entries)
		vr.Assert(live(n) == usedBefore[i] && n.Idle.GPUs() == idleBefore[i] && n.Releasing.GPUs() == 0, "C13.discard-restores-shared-gpu-state")
	}
	vr.Assert(len(cache.binds)+len(cache.evicts)+len(cache.pipelines) == 0, "C13.discard-reaches-nothing")
}

// VerifC13_GpuMemoryTaskAcrossNodes: the same programs registered for the transactional property
// (Discard / Rollback restore the queue shares and shared-GPU state of a node-dependent request).
// BOUND: as VerifC14_GpuMemoryTaskAcrossNodes
func VerifC13_GpuMemoryTaskAcrossNodes() {
	VerifC14_GpuMemoryTaskAcrossNodes()
}
