package proportion

import (
	"strings"
	"time"

	"github.com/NVIDIA/KAI-scheduler/pkg/scheduler/actions/consolidation"
	"github.com/NVIDIA/KAI-scheduler/pkg/scheduler/actions/preempt"
	"github.com/NVIDIA/KAI-scheduler/pkg/scheduler/actions/reclaim"
	"github.com/NVIDIA/KAI-scheduler/pkg/scheduler/api/common_info"
	"github.com/NVIDIA/KAI-scheduler/pkg/scheduler/api/pod_status"
	"github.com/NVIDIA/KAI-scheduler/pkg/scheduler/api/resource_info"
	vs "github.com/NVIDIA/KAI-scheduler/pkg/scheduler/zz_verifsched"
	vr "github.com/NVIDIA/KAI-scheduler/pkg/zz_verifrt"
)

// evictOpts: worlds for the reclaim and preempt actions: running (victim candidate) jobs on node n0
// and one pending job.
type evictOpts struct {
	bits                    int
	twoDepts                bool // d1 <- qa ; d2 <- qb, qc (else d <- qa, qb, qc)
	nVictims                int
	victimQ                 []string // victim i is in queue victimQ[i % len]
	pendingQ                string
	sameCpu                 bool               // all pods share one symbolic cpu request (interchangeable workloads)
	symPrio                 bool               // symbolic int32 priorities (else 0)
	elastic                 bool               // victim v0 has two pods, minMember 1
	minRuntime              bool               // min-runtimes (unset or symbolic hours) on the victims' queues and ages explored
	nodeSlack               bool               // node cpu symbolic (else exactly the running pods' total: a full node)
	fixedPreemptibleVictims bool               // victims are preemptible (else explored)
	fixedPending            bool               // the pending job is preemptible (else explored)
	leafQuota               map[string]float64 // concrete deserved quota of these leaf queues (else symbolic)
	morePending             int                // further pending jobs p1.. in the pending job's queue (or otherPendingQ)
	otherPendingQ           string
	fixedCpu                float64            // with sameCpu: the shared request is this concrete value
	symLimit                bool               // the pending job's leaf queue (single-department world) has a symbolic limit
	gpuDim                  bool               // whole GPUs instead of milli-cpu (requests >= 1)
	secondNode              bool               // a second node n1 with symbolic free capacity (victims run on n0)
	strictReclaim           bool               // allow-consolidating-reclaim=false: moved victims count as reclaimed too
	pendingCpu              float64            // > 0: the pending job's request (overrides the shared one)
	slackCpu, spareCpu      float64            // > 0: concrete free cpu on n0 / concrete cpu of n1 (instead of symbolic)
	elasticAtMinimum        bool               // victim v0 has one running and one pending pod, minimum 1 (it runs at its minimum size)
	fixedFS                 map[string]float64 // fair shares of an earlier cycle of the same cluster
	milliCpu                map[string]float64 // GPU worlds: milli-cpu of the named jobs (default 100)
	symVictimStatus         bool               // every victim pod's status is Running, Bound or Binding (all occupy their node)
	signatures              bool               // scheduling signatures on (failed jobs' shape prunes later identical ones)
}

type evictWorld struct {
	*actWorld
	pending *actJob
	others  []*actJob // further pending jobs
	victims []*actJob
	prop    string             // property the fairness assertions are reported under (default C07)
	pre     map[string]float64 // allocation of every queue before the action
	o       evictOpts
}

func hoursOrNil(name string, on bool) *int64 {
	if !on || !vr.AnyBool(name+".set") {
		return nil
	}
	h := vr.AnyInt64(name+".hours", 6)
	vr.Assume(h >= 0)
	return &h
}

func actEvictWorld(o evictOpts) *evictWorld {
	w := &actWorld{vm: resource_info.NewResourceVectorMap(), gpuDim: o.gpuDim, milliCpu: o.milliCpu, fixedFS: o.fixedFS}
	minReq := 10.0
	if o.gpuDim {
		minReq = 1
	}
	nat := func(name string) float64 {
		if v, ok := o.leafQuota[strings.TrimSuffix(name, ".deserved")]; ok {
			return v
		}
		return vr.AnyFloatNat(name, o.bits)
	}
	qaLimit := -1.0
	if o.symLimit {
		qaLimit = vr.AnyFloatNat("qa.limit", o.bits+2)
	}
	if o.twoDepts {
		w.queues = []actQueue{
			{name: "d1", parent: "", deserved: nat("d1.deserved"), limit: -1},
			{name: "d2", parent: "", deserved: nat("d2.deserved"), limit: -1, reclaimMinH: hoursOrNil("d2.reclaimMin", o.minRuntime)},
			{name: "qa", parent: "d1", deserved: nat("qa.deserved"), limit: -1, preemptMinH: hoursOrNil("qa.preemptMin", o.minRuntime)},
			{name: "qb", parent: "d2", deserved: nat("qb.deserved"), limit: -1},
			{name: "qc", parent: "d2", deserved: nat("qc.deserved"), limit: -1},
		}
	} else {
		w.queues = []actQueue{
			{name: "d", parent: "", deserved: -1, limit: -1, reclaimMinH: hoursOrNil("d.reclaimMin", o.minRuntime), preemptMinH: hoursOrNil("d.preemptMin", o.minRuntime)},
			{name: "qa", parent: "d", deserved: nat("qa.deserved"), limit: qaLimit, preemptMinH: hoursOrNil("qa.preemptMin", o.minRuntime)},
			{name: "qb", parent: "d", deserved: nat("qb.deserved"), limit: -1, reclaimMinH: hoursOrNil("qb.reclaimMin", o.minRuntime)},
			{name: "qc", parent: "d", deserved: nat("qc.deserved"), limit: -1},
		}
	}
	var shared float64
	if o.sameCpu && o.fixedCpu > 0 {
		shared = o.fixedCpu
	} else if o.sameCpu {
		shared = nat("cpu")
		vr.Assume(shared >= minReq)
	}
	cpuOf := func(name string) float64 {
		if o.sameCpu {
			return shared
		}
		c := nat(name + ".cpu")
		vr.Assume(c >= minReq)
		return c
	}
	prioOf := func(name string) int32 {
		if !o.symPrio {
			return 0
		}
		return vr.AnyInt32(name+".priority", 32)
	}
	ew := &evictWorld{actWorld: w, o: o, pre: map[string]float64{}}
	total := 0.0
	now := time.Now()
	for i := 0; i < o.nVictims; i++ {
		name := vs.Name("v", i)
		q := o.victimQ[i%len(o.victimQ)]
		cpu := cpuOf(name)
		cpus, sts, nds, min := []float64{cpu}, []pod_status.PodStatus{pod_status.Running}, []string{"n0"}, int32(1)
		if o.elastic && i == 0 {
			cpus, sts, nds = []float64{cpu, cpu}, []pod_status.PodStatus{pod_status.Running, pod_status.Running}, []string{"n0", "n0"}
		}
		if o.elasticAtMinimum && i == 0 {
			cpus, sts, nds = []float64{cpu, cpu}, []pod_status.PodStatus{pod_status.Running, pod_status.Pending}, []string{"n0", ""}
		}
		for k := range cpus {
			if sts[k] != pod_status.Pending {
				total += cpu
				if o.symVictimStatus {
					sts[k] = []pod_status.PodStatus{pod_status.Running, pod_status.Bound, pod_status.Binding}[vr.Choose(vs.Name(name+".status", k), 3)]
				}
			}
		}
		vp := true
		if !o.fixedPreemptibleVictims {
			vp = vr.AnyBool(name + ".preemptible")
		}
		aj := w.addJob(name, q, vp, prioOf(name), int64(i), min, cpus, sts, nds)
		if o.minRuntime {
			aj.ageH = vr.AnyInt64(name+".ageHours", 6)
			vr.Assume(aj.ageH >= 0)
		}
		started := now.Add(-time.Duration(aj.ageH) * time.Hour)
		aj.job.LastStartTimestamp = &started
		ew.victims = append(ew.victims, aj)
	}
	nodeCpu := total
	if o.slackCpu > 0 {
		nodeCpu = o.slackCpu + total
	} else if o.nodeSlack {
		nodeCpu = nat("n0.cpu") + total
	}
	w.addNode("n0", nodeCpu)
	if o.secondNode && o.spareCpu > 0 {
		w.addNode("n1", o.spareCpu)
	} else if o.secondNode {
		w.addNode("n1", nat("n1.cpu"))
	}
	pname := "p0"
	pp := true
	if !o.fixedPending {
		pp = vr.AnyBool(pname + ".preemptible")
	}
	pcpu := cpuOf(pname)
	if o.pendingCpu > 0 {
		pcpu = o.pendingCpu
	}
	ew.pending = w.addJob(pname, o.pendingQ, pp, prioOf(pname), 100, 1, []float64{pcpu}, []pod_status.PodStatus{pod_status.Pending}, []string{""})
	for i := 0; i < o.morePending; i++ {
		n := vs.Name("p", i+1)
		pq := o.pendingQ
		if o.otherPendingQ != "" {
			pq = o.otherPendingQ
		}
		ew.others = append(ew.others, w.addJob(n, pq, pp, prioOf(n), int64(101+i), 1, []float64{cpuOf(n)}, []pod_status.PodStatus{pod_status.Pending}, []string{""}))
	}
	w.open()
	w.ssn.SchedulerParams.UseSchedulingSignatures = o.signatures
	if o.strictReclaim {
		w.ssn.OverrideAllowConsolidatingReclaim(false)
		w.pp.allowConsolidatingReclaim = false
	}
	for _, q := range w.queues {
		ew.pre[q.name] = w.queueAllocated(q.name, false)
	}
	w.symbolicFairShares(o.bits + 2)
	return ew
}

func (w *evictWorld) evicted(t string) bool {
	for _, e := range w.cache.evicts {
		if e == t {
			return true
		}
	}
	return false
}

// evictedOf: how many pods of the job the action evicted, and their cpu.
func (w *evictWorld) evictedOf(aj *actJob) (n int, cpu float64) {
	for i, t := range aj.tasks {
		if w.evicted(string(t.UID)) {
			n++
			cpu += aj.cpu[i]
		}
	}
	return
}

// leveled: the ancestor-or-self of queue q at the level where it diverges from queue other.
func (w *evictWorld) leveled(q, other string) string {
	chain := func(x string) []string {
		var c []string
		for ; x != ""; x = w.queueOf(x).parent {
			c = append([]string{x}, c...)
		}
		return c
	}
	a, b := chain(q), chain(other)
	i := 0
	for i < len(a)-1 && i < len(b)-1 && a[i] == b[i] {
		i++
	}
	return a[i]
}

// resolvedMinRuntimeH: documented resolution (docs/plugins/minruntime.md) on this world's trees.
func (w *evictWorld) resolvedMinRuntimeH(victim *actJob, reclaim bool) int64 {
	get := func(q string) *int64 {
		if reclaim {
			return w.queueOf(q).reclaimMinH
		}
		return w.queueOf(q).preemptMinH
	}
	resolved := int64(0) // plugin default
	var consult []string // lowest precedence first
	if !reclaim {
		for x := victim.queue; x != ""; x = w.queueOf(x).parent {
			consult = append([]string{x}, consult...)
		}
	} else if w.o.twoDepts {
		consult = []string{w.leveled(victim.queue, w.pending.queue)} // different trees: the victim's top-level queue
	} else {
		// LCA of reclaimer and victim is d; one step down towards the victim, then up to the root
		consult = []string{"d", victim.queue}
	}
	for _, q := range consult {
		if h := get(q); h != nil {
			resolved = *h
		}
	}
	return resolved
}

func (w *evictWorld) observe() {
	vr.Observe("evicts", len(w.cache.evicts))
	vr.Observe("pendingPlaced", w.placed(w.pending))
	vr.Cover(len(w.cache.evicts) > 0, "cover.action-evicts")
}

// assertVictimsEligible (C06): only eligible victims, and only together with the placement they
// were evicted for.
func (w *evictWorld) assertVictimsEligible(reclaim bool, tag string) {
	for _, v := range w.victims {
		n, _ := w.evictedOf(v)
		if n == 0 {
			continue
		}
		vr.Assert(v.preempt, "C06."+tag+"-action-evicts-only-preemptible-workloads")
		if reclaim {
			vr.Assert(v.queue != w.pending.queue, "C06.reclaim-action-victims-belong-to-another-queue")
		} else {
			vr.Assert(v.queue == w.pending.queue, "C06.preempt-action-victims-belong-to-the-preemptors-queue")
			vr.Assert(v.priority < w.pending.priority, "C06.preempt-action-victims-have-strictly-lower-priority")
		}
		if v.ageH < w.resolvedMinRuntimeH(v, reclaim) {
			// inside its minimum runtime: an elastic workload may shrink down to its minimum, others are untouched
			vr.Assert(n <= len(v.tasks)-1 && len(v.tasks) > 1, "C06."+tag+"-action-respects-min-runtime")
		}
		vr.Assert(w.placed(w.pending), "C06."+tag+"-action-evicts-only-together-with-the-placement")
	}
	if len(w.cache.evicts) > 0 {
		vr.Assert(len(w.cache.pipelines)+len(w.cache.binds) > 0, "C06."+tag+"-action-commits-eviction-with-nomination")
	}
	for _, e := range w.cache.evicts {
		vr.Assert(!strings.HasPrefix(e, "p0"), "C06."+tag+"-action-never-evicts-the-pending-job")
	}
}

// VerifC06_ReclaimAction: the real reclaim action (JobsOrderByQueues, JobSolver, scenario builder,
// proportion's reclaim validators, minruntime filters, Statement commit) on a full node.
// BOUND: 1 node; queues d <- qa, qb, qc; one running single-pod job in qb; quick: every pod 16 milli-cpu; thorough: independent symbolic cpu sizes; preemptibility and age 0..63 h symbolic, one pending job in qa; reclaim min-runtimes unset or 0..63 h on d and qb; symbolic deserved quotas and fair shares
func VerifC06_ReclaimAction() {
	// quick: every pod requests 16 milli-cpu (eligibility does not depend on sizes); thorough: independent symbolic sizes, 1 victim
	o := evictOpts{bits: 6, nVictims: 1, victimQ: []string{"qb"}, pendingQ: "qa", minRuntime: true, nodeSlack: true, sameCpu: true, fixedCpu: 16}
	if vr.Bound("symbolicSizes", 0, 1) == 1 {
		o = evictOpts{bits: 6, nVictims: 1, victimQ: []string{"qb"}, pendingQ: "qa", minRuntime: true, nodeSlack: true}
	}
	w := actEvictWorld(o)
	reclaim.New().Execute(w.ssn)
	w.observe()
	w.assertVictimsEligible(true, "reclaim")
}

// VerifC06_PreemptAction: the real preempt action with an elastic victim (two pods, minimum one)
// and a single-pod victim in the preemptor's queue.
// BOUND: 1 node; queue qa under d; victims: v0 elastic (2 pods, min 1) and optionally v1 (1 pod), symbolic int32 priorities, preemptibility, age 0..63 h; preempt min-runtimes unset or 0..63 h on d and qa; one pending preemptor
func VerifC06_PreemptAction() {
	w := actEvictWorld(evictOpts{bits: 6, nVictims: vr.Choose("victims", 2) + 1, victimQ: []string{"qa"}, pendingQ: "qa", symPrio: true, elastic: true, minRuntime: true})
	preempt.New().Execute(w.ssn)
	w.observe()
	w.assertVictimsEligible(false, "preempt")
}

func (w *evictWorld) pid() string {
	if w.prop == "" {
		return "C07"
	}
	return w.prop
}

// postAlloc: a queue's allocation after the action, from its allocation before, the evictions and
// the placement of the pending job.
func (w *evictWorld) postAlloc(q string) float64 {
	a := w.pre[q]
	for _, v := range w.victims {
		if v.queue == q || w.queueOf(v.queue).parent == q {
			_, c := w.evictedOf(v)
			a -= c
		}
	}
	for _, p := range append([]*actJob{w.pending}, w.others...) {
		if w.placed(p) && (p.queue == q || w.queueOf(p.queue).parent == q) {
			a += p.cpu[0]
		}
	}
	return a
}

// assertReclaimFair (C07): what the committed reclaim did to the queues.
func (w *evictWorld) assertReclaimFair() {
	fs := func(q string) float64 { return w.pp.queues[common_info.QueueID(q)].CPU.FairShare }
	if len(w.cache.evicts) == 0 {
		return
	}
	// (a) resources are taken only from queues (at the level where they diverge from the reclaimer's)
	// above their deserved quota or above their fair share: even the largest victim left the leveled
	// queue above one of them just before it was taken
	seen := map[string]bool{}
	for _, v := range w.victims {
		if n, _ := w.evictedOf(v); n == 0 {
			continue
		}
		l := w.leveled(v.queue, w.pending.queue)
		if seen[l] {
			continue
		}
		seen[l] = true
		largest := 0.0
		for _, u := range w.victims {
			if w.leveled(u.queue, w.pending.queue) == l {
				if _, c := w.evictedOf(u); c > largest {
					largest = c
				}
			}
		}
		final := w.postAlloc(l)
		des := w.queueOf(l).deserved
		vr.Assert((des >= 0 && final+largest > des) || final+largest > fs(l), w.pid()+".reclaim-action-takes-only-from-queues-above-quota-or-fair-share")
	}
	// (b) the reclaiming queue stays within its fair share (or deserved quota) after receiving the resources
	for _, p := range append([]*actJob{w.pending}, w.others...) {
		if !w.placed(p) {
			continue
		}
		child := ""
		for q := p.queue; q != ""; child, q = q, w.queueOf(q).parent {
			des := w.queueOf(q).deserved
			// For an ancestor the property only forbids "above its fair share AND at least as saturated as
			// the sibling it took from" (decided on the kernel, VerifC07_AncestorSaturation*). When the
			// quotas below the ancestor are oversubscribed the child's fair share may exceed the ancestor's
			// (the quota step grants min(deserved, request) whatever the parent has), and the ancestor may
			// legitimately end above its own; the stronger "within fair share" is asserted for the
			// reclaimer's own queue and for ancestors whose share covers the child's.
			if child != "" && fs(child) > fs(q) {
				continue
			}
			vr.Assert(w.postAlloc(q) <= fs(q) || des < 0 || w.postAlloc(q) <= des, w.pid()+".reclaim-action-keeps-reclaimer-within-fair-share")
			if !p.preempt && des >= 0 && len(w.others) == 0 {
				np := p.cpu[0] // the reclaimer's queues hold no other workload in this world
				vr.Assert(np <= des, w.pid()+".reclaim-action-keeps-non-preemptible-reclaimer-within-quota")
			}
		}
	}
}

// VerifC07_ReclaimAction: the real reclaim action across two departments; victims in two leaf
// queues of the other department.
// BOUND: 1 full node; d1 <- qa (pending reclaimer), d2 <- qb, qc with one running preemptible single-pod job each; cpu requests, the departments' deserved quotas and all fair shares symbolic below 2^5; leaf quotas fixed (qa 31, qb 0, qc 0); reclaimer preemptible
func VerifC07_ReclaimAction_Thorough() {
	w := actEvictWorld(evictOpts{bits: 5, twoDepts: true, nVictims: 2, victimQ: []string{"qb", "qc"}, pendingQ: "qa", fixedPreemptibleVictims: true, fixedPending: true,
		leafQuota: map[string]float64{"qa": 31, "qb": 0, "qc": 0}})
	reclaim.New().Execute(w.ssn)
	w.observe()
	w.assertReclaimFair()
}

// VerifC05_ReclaimProgress: unobstructed case of interchangeable single-pod workloads: a pending
// job that keeps its queue within deserved quota obtains capacity from a preemptible pod of an
// over-quota queue within the cycle.
// BOUND: 1 full node; d <- qa, qb; one preemptible pod (Running, Bound or Binding) in qb, one pending pod in qa, one shared symbolic cpu request; symbolic deserved quotas and fair shares
func VerifC05_ReclaimProgress() {
	w := actEvictWorld(evictOpts{bits: 6, nVictims: 1, victimQ: []string{"qb"}, pendingQ: "qa", sameCpu: true, fixedPreemptibleVictims: true, symVictimStatus: true})
	reclaim.New().Execute(w.ssn)
	w.observe()
	cpu := w.pending.cpu[0]
	qa, qb := w.queueOf("qa"), w.queueOf("qb")
	if cpu <= qa.deserved && w.pre["qb"] > qb.deserved {
		vr.Assert(len(w.cache.evicts) == 1 && w.placed(w.pending), "C05.in-quota-job-reclaims-from-over-quota-queue-within-the-cycle")
	}
}

// VerifC05_PreemptProgress: a pending workload obtains capacity by preempting a strictly
// lower-priority preemptible workload of its own queue within the cycle.
// BOUND: 1 full node; queue qa under d; one preemptible pod (Running, Bound or Binding), one pending pod, one shared symbolic cpu request, symbolic int32 priorities; symbolic deserved quota
func VerifC05_PreemptProgress() {
	w := actEvictWorld(evictOpts{bits: 6, nVictims: 1, victimQ: []string{"qa"}, pendingQ: "qa", sameCpu: true, symPrio: true, fixedPreemptibleVictims: true, symVictimStatus: true})
	preempt.New().Execute(w.ssn)
	w.observe()
	if w.victims[0].priority < w.pending.priority && (w.pending.preempt || w.pending.cpu[0] <= w.queueOf("qa").deserved) {
		vr.Assert(len(w.cache.evicts) == 1 && w.placed(w.pending), "C05.job-preempts-lower-priority-workload-of-its-queue-within-the-cycle")
	}
}

// VerifC05_ReclaimProgressManyJobs: two interchangeable pending jobs of one queue, two
// interchangeable preemptible victims of an over-quota sibling queue, scheduling signatures on or off
// (a job that reclaimed successfully must not make the signature short-cut skip the next one).
// BOUND: 1 full node; d <- qa, qb, qc; two running preemptible pods in qb, two pending pods in qa, every pod 16 milli-cpu, equal priorities; deserved quotas of qa, qb and all fair shares symbolic below 2^6; signatures explored on/off
func VerifC05_ReclaimProgressManyJobs() {
	w := actEvictWorld(evictOpts{bits: 6, nVictims: 2, victimQ: []string{"qb"}, pendingQ: "qa", sameCpu: true, fixedCpu: 16, fixedPreemptibleVictims: true, fixedPending: true,
		morePending: 1, signatures: vr.AnyBool("useSchedulingSignatures")})
	reclaim.New().Execute(w.ssn)
	w.observe()
	qa, qb := w.queueOf("qa"), w.queueOf("qb")
	// both jobs keep qa within its deserved quota, and qb is over its quota even after giving one pod up
	if 32 <= qa.deserved && 16 > qb.deserved {
		vr.Assert(len(w.cache.evicts) == 2 && w.placed(w.pending) && w.placed(w.others[0]), "C05.every-in-quota-job-reclaims-from-the-over-quota-queue-within-the-cycle")
	}
	if 16 <= qa.deserved && 32 > qb.deserved {
		vr.Assert(len(w.cache.evicts) >= 1 && (w.placed(w.pending) || w.placed(w.others[0])), "C05.in-quota-job-reclaims-from-over-quota-queue-within-the-cycle")
	}
	vr.Cover(len(w.cache.evicts) == 2, "C05.cover.two-reclaims-for-one-queue")
}

// VerifC05_ReclaimProgressAcrossDepartments: the reclaimer and the over-quota queue are in different
// departments; the victim department is over its quota only when its leaf queues are summed.
// BOUND: 1 full node; d1 <- qa (pending pod), d2 <- qb, qc with one running preemptible pod each; one shared symbolic cpu request; symbolic deserved quotas and fair shares
func VerifC05_ReclaimProgressAcrossDepartments() {
	w := actEvictWorld(evictOpts{bits: 5, twoDepts: true, nVictims: 2, victimQ: []string{"qb", "qc"}, pendingQ: "qa", sameCpu: true, fixedPreemptibleVictims: true, fixedPending: true})
	reclaim.New().Execute(w.ssn)
	w.observe()
	cpu := w.pending.cpu[0]
	des := func(q string) float64 { return w.queueOf(q).deserved }
	// the pending job keeps its queue and department within deserved quota; queue qc and its department
	// are over theirs
	if cpu <= des("qa") && cpu <= des("d1") && w.pre["qc"] > des("qc") && w.pre["d2"] > des("d2") {
		vr.Assert(len(w.cache.evicts) >= 1 && w.placed(w.pending), "C05.in-quota-job-reclaims-from-over-quota-queue-of-another-department")
	}
}

// VerifC05_PreemptProgressManyJobs: two pending jobs of identical shape and two lower-priority
// running victims, with scheduling signatures on (a job that failed to preempt prunes later jobs of
// the same shape - a job that succeeded must not).
// BOUND: 1 full node; queue qa; two running preemptible pods, two pending pods, one shared symbolic cpu request; symbolic int32 priorities; signatures explored on/off
func VerifC05_PreemptProgressManyJobs() {
	w := actEvictWorld(evictOpts{bits: 6, nVictims: 2, victimQ: []string{"qa"}, pendingQ: "qa", sameCpu: true, symPrio: true, fixedPreemptibleVictims: true, fixedPending: true,
		morePending: 1, signatures: vr.AnyBool("useSchedulingSignatures")})
	preempt.New().Execute(w.ssn)
	w.observe()
	all := true
	for _, v := range w.victims {
		for _, p := range append([]*actJob{w.pending}, w.others...) {
			if !(v.priority < p.priority) {
				all = false
			}
		}
	}
	if all {
		vr.Assert(len(w.cache.evicts) == 2 && w.placed(w.pending) && w.placed(w.others[0]), "C05.every-job-preempts-a-lower-priority-workload-within-the-cycle")
	}
}

// VerifC07_TwoReclaimersOneCycle: two pending jobs in different queues reclaim in the same cycle
// from one over-quota queue; the second decision must see what the first one took.
// BOUND: 1 full node; d <- qa, qb, qc; three running preemptible pods in qb, one pending pod in qa and one in qc, every pod requests 16 milli-cpu; deserved quota of qb and the fair shares symbolic (qa, qc deserve 16)
func VerifC07_TwoReclaimersOneCycle() {
	w := actEvictWorld(evictOpts{bits: 6, nVictims: 3, victimQ: []string{"qb"}, pendingQ: "qa", sameCpu: true, fixedPreemptibleVictims: true, fixedPending: true,
		morePending: 1, otherPendingQ: "qc", leafQuota: map[string]float64{"qa": 16, "qc": 16}, fixedCpu: 16})
	reclaim.New().Execute(w.ssn)
	w.observe()
	vr.Cover(len(w.cache.evicts) == 2, "C07.cover.two-reclaims-in-one-cycle")
	w.assertReclaimFair()
}

// VerifC08_PreemptAction: queue limits hold after the real preempt action: what stays running plus
// what is nominated in the preemptor's queue never exceeds the queue's limit (the what-if placements
// of the solver go through the same capacity checks as real ones).
// BOUND: 1 node with symbolic free GPUs; queue qa (symbolic limit and deserved quota) under d; two running preemptible single-pod jobs and one pending job in qa, independent symbolic whole-GPU requests in 1..7 and int32 priorities
func VerifC08_PreemptAction() {
	w := actEvictWorld(evictOpts{bits: 3, nVictims: 2, victimQ: []string{"qa"}, pendingQ: "qa", symPrio: true, fixedPreemptibleVictims: true, fixedPending: true, symLimit: true, gpuDim: true, nodeSlack: true})
	lim := w.queueOf("qa").limit
	vr.Assume(w.pre["qa"] <= lim) // reachable pre-state (C08's invariant)
	preempt.New().Execute(w.ssn)
	w.observe()
	vr.Assert(w.postAlloc("qa") <= lim, "C08.preempt-action-keeps-queue-within-limit")
}

// nominatedElsewhere: the evicted pod was nominated to a node other than the one it ran on.
func (w *evictWorld) nominatedElsewhere(uid, from string) bool {
	for _, rec := range w.cache.pipelines {
		if strings.HasPrefix(rec, uid+"@") && rec != uid+"@"+from {
			return true
		}
	}
	return false
}

// VerifC06_ReclaimThenPreempt_Thorough: (thorough tier only: about 15 minutes, explored up to the per-harness deadline) reclaim and preempt run one after the other on ONE session, as in
// every cycle: a reclaimer of another queue first looks at the victim (whatever the outcome), then a
// pending job of the victim's own queue goes through the preempt action. What the reclaim action
// learnt about the victim (min-runtime verdicts are cached per session) must not leak into the
// preempt decision: a victim evicted by the preempt action is past its PREEMPT min-runtime, preemptible
// and of strictly lower priority.
// BOUND: victim preemptible, preemptor's priority above the victim's, reclaimer's priority 0; 1 full node; d <- qa, qb; victim v0 (one 16 milli-cpu pod) in qb with symbolic age 0..63 h, preemptibility and int32 priority; pending p0 in qa (reclaimer) and p1 in qb (preemptor, symbolic int32 priority); reclaim min-runtimes unset or 0..63 h on d and qb, preempt min-runtimes on d and qa; symbolic quotas and fair shares
func VerifC06_ReclaimThenPreempt_Thorough() {
	w := actEvictWorld(evictOpts{bits: 6, nVictims: 1, victimQ: []string{"qb"}, pendingQ: "qa", sameCpu: true, fixedCpu: 16, symPrio: true, minRuntime: true,
		morePending: 1, otherPendingQ: "qb", fixedPending: true, fixedPreemptibleVictims: true})
	// the interesting half only: a preemptor that outranks the victim
	vr.Assume(w.victims[0].priority < w.others[0].priority && w.pending.priority == 0)
	reclaim.New().Execute(w.ssn)
	afterReclaim := len(w.cache.evicts)
	preempt.New().Execute(w.ssn)
	vr.Observe("evictsByReclaim", afterReclaim)
	vr.Observe("evictsByPreempt", len(w.cache.evicts)-afterReclaim)
	v, p1 := w.victims[0], w.others[0]
	for _, e := range w.cache.evicts[afterReclaim:] {
		if e != string(v.tasks[0].UID) {
			continue
		}
		vr.Assert(v.preempt, "C06.preempt-action-evicts-only-preemptible-workloads")
		vr.Assert(v.priority < p1.priority, "C06.preempt-action-victims-have-strictly-lower-priority")
		vr.Assert(v.ageH >= w.resolvedMinRuntimeH(v, false), "C06.preempt-action-respects-min-runtime")
	}
	vr.Cover(afterReclaim == 0 && len(w.cache.evicts) == 1, "C06.cover.preempt-evicts-after-reclaim-did-not")
}

// VerifC06_ConsolidationAction: the real consolidation action on two nodes: a running pod is moved
// only if it belongs to a preemptible workload and the same decision re-places it on another node,
// together with the placement of the pending job it was moved for.
// BOUND: 2 nodes (n0 full with 1..2 running single-pod jobs, n1 with symbolic free cpu), one pending preemptible job; independent symbolic cpu requests; victims' preemptibility explored; queues d <- qa (pending), qb (running)
func VerifC06_ConsolidationAction() {
	w := actEvictWorld(evictOpts{bits: 5, nVictims: vr.Bound("victims", 1, 2), victimQ: []string{"qb"}, pendingQ: "qa", fixedPending: true, nodeSlack: true, secondNode: true})
	consolidation.New().Execute(w.ssn)
	w.observe()
	for _, v := range w.victims {
		for _, t := range v.tasks {
			if !w.evicted(string(t.UID)) {
				continue
			}
			vr.Assert(v.preempt, "C06.consolidation-action-moves-only-preemptible-workloads")
			vr.Assert(w.nominatedElsewhere(string(t.UID), "n0"), "C06.consolidation-action-re-places-every-pod-it-evicts")
			vr.Assert(w.placed(w.pending), "C06.consolidation-action-evicts-only-together-with-the-placement")
		}
	}
}

// VerifC06_ReclaimActionTwoNodes: the real reclaim action (consolidating reclaim allowed) with a
// second node on which evicted pods may be re-placed: victim eligibility - in particular the
// min-runtime protection of elastic workloads - holds whether or not the victims are re-placed.
// BOUND: 2 nodes; queues d <- qa (pending), qb; victim v0 elastic (2 pods, minimum 1) in qb with age and reclaim min-runtime (on qb) explored, 0..63 h; independent symbolic cpu requests
func VerifC06_ReclaimActionTwoNodes_Thorough() {
	w := actEvictWorld(evictOpts{bits: 5, nVictims: 1, victimQ: []string{"qb"}, pendingQ: "qa", elastic: true, minRuntime: true, fixedPending: true, fixedPreemptibleVictims: true, secondNode: true, nodeSlack: true})
	reclaim.New().Execute(w.ssn)
	w.observe()
	w.assertVictimsEligible(true, "reclaim")
}

// VerifC07_StrictReclaimWithSpareNode: with allow-consolidating-reclaim=false a victim that the
// solver can re-place on a spare node is still really evicted, so the reclaim must pass the same
// quota / fair-share rules as any other.
// BOUND: 2 nodes (n0 full with one running preemptible pod of qb, n1 with symbolic free cpu); one pending pod in qa; every pod 16 milli-cpu; symbolic deserved quotas and fair shares
func VerifC07_StrictReclaimWithSpareNode() {
	w := actEvictWorld(evictOpts{bits: 6, nVictims: 1, victimQ: []string{"qb"}, pendingQ: "qa", sameCpu: true, fixedCpu: 16, fixedPreemptibleVictims: true, fixedPending: true, secondNode: true, strictReclaim: true})
	reclaim.New().Execute(w.ssn)
	w.observe()
	w.assertReclaimFair()
}

// VerifC15_TwoCyclesNoPingPong: two consecutive cycles of the real reclaim action on the same
// cluster. Cycle 1: the pending job of qa takes the node from the running job of qb. Cycle 2 is the
// snapshot that follows: the evicted workload is pending again in qb, the reclaimer runs in qa;
// quotas are the same, and so are the fair shares (every queue requests exactly what it did: the
// division is a function of capacity, quotas, weights and requests). The evicted workload must not
// take the node back - the length-2 eviction cycle at action level.
// BOUND: 1 full node; d <- qa, qb, qc; both workloads preemptible single pods of 16 milli-cpu, equal priority; deserved quotas and fair shares symbolic below 2^6, identical in both cycles; no min-runtime, no time-based fairness (k = 0)
func VerifC15_TwoCyclesNoPingPong() {
	o := evictOpts{bits: 6, nVictims: 1, victimQ: []string{"qb"}, pendingQ: "qa", sameCpu: true, fixedCpu: 16, fixedPreemptibleVictims: true, fixedPending: true}
	w1 := actEvictWorld(o)
	reclaim.New().Execute(w1.ssn)
	vr.Observe("cycle1.evicts", len(w1.cache.evicts))
	if !(len(w1.cache.evicts) == 1 && w1.placed(w1.pending)) {
		vr.Stop()
	}
	o.victimQ, o.pendingQ = []string{"qa"}, "qb"
	o.leafQuota = map[string]float64{}
	for _, q := range []string{"qa", "qb", "qc"} {
		o.leafQuota[q] = w1.queueOf(q).deserved
	}
	o.fixedFS = w1.fs
	w2 := actEvictWorld(o)
	reclaim.New().Execute(w2.ssn)
	vr.Observe("cycle2.evicts", len(w2.cache.evicts))
	vr.Cover(true, "C15.cover.second-cycle-reached")
	vr.Assert(len(w2.cache.evicts) == 0, "C15.evicted-workload-does-not-take-its-place-back-in-the-next-cycle")
}

// VerifC15_StrictReclaimNeedsAReason: the same world as the mechanism of C15: an eviction that no
// quota or fair-share rule justifies is exactly what the closed system repeats forever (the evicted
// pod is re-created, served first, lands on its old node and is evicted again).
// BOUND: as VerifC07_StrictReclaimWithSpareNode
func VerifC15_StrictReclaimNeedsAReason() {
	w := actEvictWorld(evictOpts{bits: 6, nVictims: 1, victimQ: []string{"qb"}, pendingQ: "qa", sameCpu: true, fixedCpu: 16, fixedPreemptibleVictims: true, fixedPending: true, secondNode: true, strictReclaim: true})
	w.prop = "C15"
	reclaim.New().Execute(w.ssn)
	w.observe()
	w.assertReclaimFair()
}

// VerifC06_ReclaimMovesProtectedElasticVictim: an elastic workload running at its minimum size
// (one running pod, one pending pod, minimum 1) inside its reclaim min-runtime must not lose its
// running pod - also when the solver could re-place that pod on a spare node the pending job cannot
// use (consolidating reclaim).
// BOUND: 2 nodes (n0: the victim's 16 milli-cpu pod plus 16 free; n1: 16 free - room for the victim's pod, not for the pending job); pending job of 32 milli-cpu in qa; victim in qb with symbolic age and reclaim min-runtimes (0..63 h) on qb and d; symbolic quotas and fair shares
func VerifC06_ReclaimMovesProtectedElasticVictim() {
	w := actEvictWorld(evictOpts{bits: 6, nVictims: 1, victimQ: []string{"qb"}, pendingQ: "qa", sameCpu: true, fixedCpu: 16, pendingCpu: 32, elasticAtMinimum: true,
		minRuntime: true, fixedPending: true, fixedPreemptibleVictims: true, secondNode: true, slackCpu: 16, spareCpu: 16})
	reclaim.New().Execute(w.ssn)
	w.observe()
	v := w.victims[0]
	n, _ := w.evictedOf(v)
	if n > 0 && v.ageH < w.resolvedMinRuntimeH(v, true) {
		// evicting its only running pod takes the protected workload below its minimum
		vr.Assert(false, "C06.reclaim-action-respects-min-runtime")
	}
	w.assertVictimsEligible(true, "reclaim")
}
