package proportion

import (
	"github.com/NVIDIA/KAI-scheduler/pkg/scheduler/api"
	"github.com/NVIDIA/KAI-scheduler/pkg/scheduler/api/common_info"
	"github.com/NVIDIA/KAI-scheduler/pkg/scheduler/api/pod_info"
	"github.com/NVIDIA/KAI-scheduler/pkg/scheduler/api/pod_status"
	"github.com/NVIDIA/KAI-scheduler/pkg/scheduler/api/podgroup_info"
	"github.com/NVIDIA/KAI-scheduler/pkg/scheduler/api/queue_info"
	"github.com/NVIDIA/KAI-scheduler/pkg/scheduler/api/resource_info"
	"github.com/NVIDIA/KAI-scheduler/pkg/scheduler/cache/cluster_info"
	"github.com/NVIDIA/KAI-scheduler/pkg/scheduler/framework"
	cp "github.com/NVIDIA/KAI-scheduler/pkg/scheduler/plugins/proportion/capacity_policy"
	rec "github.com/NVIDIA/KAI-scheduler/pkg/scheduler/plugins/proportion/reclaimable"
	rs "github.com/NVIDIA/KAI-scheduler/pkg/scheduler/plugins/proportion/resource_share"
	vs "github.com/NVIDIA/KAI-scheduler/pkg/scheduler/zz_verifsched"
	vr "github.com/NVIDIA/KAI-scheduler/pkg/zz_verifrt"
)

// VerifC10_QueueGraph: every parent assignment of N Queue objects (each parent = none, any queue
// including itself, or a missing queue) goes through the real snapshot hierarchy construction
// (cluster_info.UpdateQueueHierarchy) and then through every hierarchy walker of the proportion
// plugin with a job in each surviving queue: createQueueResourceAttrs,
// updateQueuesCurrentResourceUsage, setFairShare (recursion over children), the allocate and
// deallocate handlers, CapacityPolicy.IsJobOverQueueCapacity and Reclaimable's path walkers.
// A panic or a loop exceeding 64 iterations on any of them is the violation.
// BOUND: N = 3 (quick) / 4 (thorough) queues; (N+2)^N parent graphs; quotas concrete; one 1-GPU allocated job + one pending job per queue
func VerifC10_QueueGraph() {
	vr.NoPanic("C10.queue-graph-cycle-completes")
	vr.SetUnwind(64)
	n := vr.Bound("queues", 3, 4)
	queues := map[common_info.QueueID]*queue_info.QueueInfo{}
	malformed := false
	parentIdx := make([]int, n)
	for i := 0; i < n; i++ {
		k := vr.Choose("parent", n+2) // 0: top, 1..n: queue k-1, n+1: missing
		parentIdx[i] = k
		parent := ""
		switch {
		case k == n+1:
			parent = "missing"
		case k > 0:
			parent = vs.Name("q", k-1)
		}
		name := vs.Name("q", i)
		q := &queue_info.QueueInfo{UID: common_info.QueueID(name), Name: name, ParentQueue: common_info.QueueID(parent), ChildQueues: []common_info.QueueID{}}
		q.Resources.GPU = queue_info.ResourceQuota{Quota: 2, Limit: -1, OverQuotaWeight: 1}
		q.Resources.CPU = queue_info.ResourceQuota{Quota: -1, Limit: -1, OverQuotaWeight: 1}
		q.Resources.Memory = queue_info.ResourceQuota{Quota: -1, Limit: -1, OverQuotaWeight: 1}
		queues[q.UID] = q
	}
	// a graph is well-formed iff every chain reaches a top queue within n steps
	for i := 0; i < n; i++ {
		cur, steps := i, 0
		for parentIdx[cur] != 0 && steps <= n {
			if parentIdx[cur] == n+1 {
				break
			}
			cur = parentIdx[cur] - 1
			steps++
		}
		if steps > n {
			malformed = true
		}
	}
	if malformed {
		// same obligation, separate id: the input class "queue parent graph contains a cycle"
		vr.NoPanic("C10.queue-graph-cycle-completes#parent-cycle")
	}
	cluster_info.UpdateQueueHierarchy(queues)

	vm := resource_info.NewResourceVectorMap()
	jobs := map[common_info.PodGroupID]*podgroup_info.PodGroupInfo{}
	for i := 0; i < n; i++ {
		name := vs.Name("q", i)
		if _, ok := queues[common_info.QueueID(name)]; !ok {
			continue
		}
		running := vs.NewTask("r"+name, "job-"+name, "", 1000, 1000, vs.GpuSpec{Whole: 1}, pod_status.Running, "n1", vm)
		running.AcceptedResource = running.ResReq.Clone()
		pending := vs.NewTask("p"+name, "job-"+name, "", 1000, 1000, vs.GpuSpec{Whole: 1}, pod_status.Pending, "", vm)
		j := vs.NewJob("job-"+name, name, true, 0, 1, vm, running, pending)
		jobs[j.UID] = j
	}
	node := vs.NewNode("n1", 64000, 64000, 8, 100, 16000, vm)
	ci := &api.ClusterInfo{Queues: queues, PodGroupInfos: jobs, QueueResourceUsage: *queue_info.NewClusterUsage()}
	ssn := &framework.Session{ClusterInfo: ci}
	pp := &proportionPlugin{totalResource: rs.NewResourceQuantities(64000, 64000, 8), queues: map[common_info.QueueID]*rs.QueueAttributes{}, kValue: 1}
	pp.createQueueResourceAttrs(ssn)
	pp.updateQueuesCurrentResourceUsage(ssn)
	pp.setFairShare()
	policy := cp.New(pp.queues)
	reclaim := rec.New(1)
	alloc, dealloc := pp.allocateHandlerFn(ssn), pp.deallocateHandlerFn(ssn)
	survivors := 0
	for _, j := range jobs {
		survivors++
		var pend *pod_info.PodInfo
		for _, t := range j.GetAllPodsMap() {
			if t.Status == pod_status.Pending {
				pend = t
			}
		}
		policy.IsJobOverQueueCapacity(j, []*pod_info.PodInfo{pend})
		policy.IsTaskAllocationOnNodeOverCapacity(pend, j, node)
		pend.AcceptedResource = pend.ResReq.Clone()
		alloc(&framework.Event{Task: pend})
		dealloc(&framework.Event{Task: pend})
		info := &rec.ReclaimerInfo{Name: j.Name, Namespace: "ns", Queue: j.Queue, IsPreemptable: true, RequiredResources: resource_info.NewResource(1000, 1000, 1)}
		reclaim.CanReclaimResources(pp.queues, info)
		for _, other := range jobs {
			if other.Queue == j.Queue {
				continue
			}
			reclaim.Reclaimable(pp.queues, info, map[common_info.QueueID][]*resource_info.Resource{other.Queue: {resource_info.NewResource(1000, 1000, 1)}})
		}
	}
	vr.Observe("survivors", survivors)
	// healthy workloads are still scheduled: in a well-formed graph no queue with a present parent chain is dropped
	if !malformed {
		want := 0
		for i := 0; i < n; i++ {
			cur, ok := i, true
			for parentIdx[cur] != 0 {
				if parentIdx[cur] == n+1 {
					ok = false
					break
				}
				cur = parentIdx[cur] - 1
			}
			if ok {
				want++
			}
		}
		vr.Assert(survivors == want, "C10.well-formed-queues-survive")
	}
}
