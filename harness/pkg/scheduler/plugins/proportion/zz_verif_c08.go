package proportion

import (
	"github.com/NVIDIA/KAI-scheduler/pkg/scheduler/api"
	"github.com/NVIDIA/KAI-scheduler/pkg/scheduler/api/common_info"
	"github.com/NVIDIA/KAI-scheduler/pkg/scheduler/api/node_info"
	"github.com/NVIDIA/KAI-scheduler/pkg/scheduler/api/pod_info"
	"github.com/NVIDIA/KAI-scheduler/pkg/scheduler/api/pod_status"
	"github.com/NVIDIA/KAI-scheduler/pkg/scheduler/api/podgroup_info"
	"github.com/NVIDIA/KAI-scheduler/pkg/scheduler/api/resource_info"
	"github.com/NVIDIA/KAI-scheduler/pkg/scheduler/framework"
	cp "github.com/NVIDIA/KAI-scheduler/pkg/scheduler/plugins/proportion/capacity_policy"
	rs "github.com/NVIDIA/KAI-scheduler/pkg/scheduler/plugins/proportion/resource_share"
	vs "github.com/NVIDIA/KAI-scheduler/pkg/scheduler/zz_verifsched"
	vr "github.com/NVIDIA/KAI-scheduler/pkg/zz_verifrt"
)

const c08Bits = 30

// c08Chain builds a chain leaf -> ... -> top of `depth` queues with arbitrary per-resource state.
func c08Chain(depth int, active rs.ResourceName) (map[common_info.QueueID]*rs.QueueAttributes, []*rs.QueueAttributes) {
	queues := map[common_info.QueueID]*rs.QueueAttributes{}
	var chain []*rs.QueueAttributes
	for i := 0; i < depth; i++ {
		q := &rs.QueueAttributes{UID: common_info.QueueID(vs.Name("q", i)), Name: vs.Name("q", i)}
		if i+1 < depth {
			q.ParentQueue = common_info.QueueID(vs.Name("q", i+1))
		}
		if i > 0 {
			q.ChildQueues = []common_info.QueueID{common_info.QueueID(vs.Name("q", i-1))}
		}
		for _, r := range rs.AllResources {
			s := q.ResourceShare(r)
			n := vs.Name("q", i) + "." + string(r)
			if r != active {
				s.MaxAllowed, s.Deserved = -1, -1
				continue
			}
			s.MaxAllowed = vr.AnyFloatInt(n+".limit", c08Bits)
			s.Deserved = vr.AnyFloatInt(n+".deserved", c08Bits)
			s.Allocated = vr.AnyFloatNat(n+".allocated", c08Bits)
			s.AllocatedNotPreemptible = vr.AnyFloatNat(n+".allocNP", c08Bits)
			vr.Assume(s.MaxAllowed >= -1)
			vr.Assume(s.Deserved >= -1)
		}
		queues[q.UID] = q
		chain = append(chain, q)
	}
	return queues, chain
}

// c08Inv is the property as an invariant over the queue chain, written from the statement:
// allocation <= limit (unless unlimited) and non-preemptible allocation <= deserved (unless
// unlimited), at every level, in every resource.
func c08LimitOK(chain []*rs.QueueAttributes) bool {
	ok := true
	for _, q := range chain {
		for _, r := range rs.AllResources {
			s := q.ResourceShare(r)
			if s.MaxAllowed != -1 && s.Allocated > s.MaxAllowed {
				ok = false
			}
		}
	}
	return ok
}

func c08QuotaOK(chain []*rs.QueueAttributes) bool {
	ok := true
	for _, q := range chain {
		for _, r := range rs.AllResources {
			s := q.ResourceShare(r)
			if s.Deserved != -1 && s.AllocatedNotPreemptible > s.Deserved {
				ok = false
			}
		}
	}
	return ok
}

func c08Session(jobs ...*podgroup_info.PodGroupInfo) *framework.Session {
	m := map[common_info.PodGroupID]*podgroup_info.PodGroupInfo{}
	for _, j := range jobs {
		m[j.UID] = j
	}
	return &framework.Session{ClusterInfo: &api.ClusterInfo{PodGroupInfos: m}}
}

// VerifC08_WholeStep: one scheduling decision (job-level capacity check, then for every task the
// node-level check followed by the real node accounting and the real proportion allocate handler)
// from ANY queue-chain state satisfying the invariant re-establishes the invariant.
// BOUND: chain depth 1..2 (quick) / 1..3 (thorough); 1..2 tasks; ONE resource dimension at a time (cpu, memory or whole GPUs; the other two not requested and unlimited); quantities integers < 2^30 (-1 = unlimited), whole GPUs < 2^8
// ASSUME: pre-state satisfies the invariant (allocated <= limit, non-preemptible <= deserved where limited) - one inductive step; node has room (node fit is C01's subject)
func VerifC08_WholeStep() {
	depth := vr.Choose("depth", vr.Bound("maxDepth", 2, 3)) + 1
	active := rs.AllResources[vr.Choose("resource", 3)]
	queues, chain := c08Chain(depth, active)
	vr.Assume(c08LimitOK(chain))
	vr.Assume(c08QuotaOK(chain))

	vm := resource_info.NewResourceVectorMap()
	nTasks := vr.Choose("tasks", 2) + 1
	var tasks []*pod_info.PodInfo
	for i := 0; i < nTasks; i++ {
		n := vs.Name("t", i)
		var cpu, mem, gpus float64
		switch active {
		case rs.CpuResource:
			cpu = vr.AnyFloatNat(n+".cpu", c08Bits)
		case rs.MemoryResource:
			mem = vr.AnyFloatNat(n+".mem", c08Bits)
		default:
			gpus = vr.AnyFloatNat(n+".gpus", 8)
		}
		tasks = append(tasks, vs.NewTask(n, "job", "", cpu, mem, vs.GpuSpec{Kind: 0, Whole: gpus}, pod_status.Pending, "", vm))
	}
	job := vs.NewJob("job", "q0", vr.AnyBool("preemptible"), 0, int32(nTasks), vm, tasks...)
	pp := &proportionPlugin{queues: queues}
	ssn := c08Session(job)
	policy := cp.New(queues)
	node := vs.NewNode("n1", 1<<40, 1<<40, 1<<20, 100, 16000, vm)
	handler := pp.allocateHandlerFn(ssn)

	if !policy.IsJobOverQueueCapacity(job, tasks).IsSchedulable {
		vr.Observe("admitted", false)
		return
	}
	placed := 0
	for _, t := range tasks {
		if !policy.IsTaskAllocationOnNodeOverCapacity(t, job, node).IsSchedulable {
			break
		}
		c08Place(node, job, t, handler)
		placed++
	}
	vr.Observe("admitted", true)
	vr.Observe("placed", placed)
	vr.Observe("leafGpuAllocated", chain[0].GPU.Allocated)
	vr.Assert(c08LimitOK(chain), "C08.limit-holds-after-decision")
	vr.Assert(c08QuotaOK(chain), "C08.nonpreemptible-within-quota-after-decision")
}

// c08Place applies what Statement.Allocate does for the queue accounting: status change, real node
// accounting (sets AcceptedResource) and the real proportion allocate handler.
func c08Place(node *node_info.NodeInfo, job *podgroup_info.PodGroupInfo, t *pod_info.PodInfo, handler func(*framework.Event)) {
	if err := job.UpdateTaskStatus(t, pod_status.Allocated); err != nil {
		panic(err)
	}
	t.NodeName = node.Name
	if err := node.AddTask(t); err != nil {
		panic(err)
	}
	handler(&framework.Event{Task: t})
}

// VerifC08_FractionStep: as VerifC08_WholeStep in the GPU dimension with fractional requests: the
// task is a fraction request (portion from a menu) or a GPU-memory request (MiB from a menu) for
// 1 or 2 devices, on a node whose GPUs have 1000 MiB. What the handler charges (AcceptedResource)
// must be covered by what the two capacity checks tested.
// BOUND: chain depth 1..2; one task; portions {0.25,0.3,0.5,0.7}, memories {250,600}, devices {1,2}; queue GPU numbers integers < 2^20
// ASSUME: pre-state satisfies the invariant; node has room
func VerifC08_FractionStep() {
	depth := vr.Choose("depth", 2) + 1
	queues, chain := c08Chain(depth, rs.GpuResource)
	vr.Assume(c08LimitOK(chain))
	vr.Assume(c08QuotaOK(chain))
	for _, q := range chain {
		vr.Assume(q.GPU.Allocated < 1<<20 && q.GPU.AllocatedNotPreemptible < 1<<20 && q.GPU.MaxAllowed < 1<<20 && q.GPU.Deserved < 1<<20)
	}
	vm := resource_info.NewResourceVectorMap()
	devices := int64(vr.Choose("devices", 2) + 1)
	var g vs.GpuSpec
	if vr.Choose("kind", 2) == 0 {
		g = vs.GpuSpec{Kind: 1, Portion: []float64{0.25, 0.3, 0.5, 0.7}[vr.Choose("portion", 4)], Devices: devices}
	} else {
		g = vs.GpuSpec{Kind: 2, MemMiB: []int64{250, 600}[vr.Choose("mem", 2)], Devices: devices}
	}
	t := vs.NewTask("t0", "job", "", 0, 0, g, pod_status.Pending, "", vm)
	job := vs.NewJob("job", "q0", vr.AnyBool("preemptible"), 0, 1, vm, t)
	pp := &proportionPlugin{queues: queues}
	ssn := c08Session(job)
	policy := cp.New(queues)
	node := vs.NewNode("n1", 1<<40, 1<<40, 8, 100, 1000, vm)
	handler := pp.allocateHandlerFn(ssn)

	if !policy.IsJobOverQueueCapacity(job, []*pod_info.PodInfo{t}).IsSchedulable {
		return
	}
	if !policy.IsTaskAllocationOnNodeOverCapacity(t, job, node).IsSchedulable {
		return
	}
	// real gpu-sharing placement is C02's subject; here the task is marked with fresh groups so that
	// the real node accounting accepts it
	for i := int64(0); i < devices; i++ {
		t.GPUGroups = append(t.GPUGroups, vs.Name("g", int(i)))
	}
	c08Place(node, job, t, handler)
	vr.Observe("charged", chain[0].GPU.Allocated)
	if g.Kind == 2 && devices > 1 {
		vr.Assert(c08LimitOK(chain), "C08.limit-holds-after-decision#gpu-memory-multi-device")
		vr.Assert(c08QuotaOK(chain), "C08.nonpreemptible-within-quota-after-decision#gpu-memory-multi-device")
	} else if g.Kind == 2 {
		vr.Assert(c08LimitOK(chain), "C08.limit-holds-after-decision#gpu-memory")
		vr.Assert(c08QuotaOK(chain), "C08.nonpreemptible-within-quota-after-decision#gpu-memory")
	} else {
		vr.Assert(c08LimitOK(chain), "C08.limit-holds-after-decision#fraction")
		vr.Assert(c08QuotaOK(chain), "C08.nonpreemptible-within-quota-after-decision#fraction")
	}
}

// VerifC08_UndoneStepLeavesUsage: a what-if placement that is undone (real allocate handler, then
// real deallocate handler, as Statement rollback does) leaves the usage the capacity checks read -
// allocated and non-preemptible allocated at every level - exactly as it was, for preemptible and
// non-preemptible workloads; otherwise later decisions of the cycle are checked against wrong usage.
// BOUND: chain depth 1..3; one task; one resource dimension at a time; quantities integers < 2^30
func VerifC08_UndoneStepLeavesUsage() {
	depth := vr.Choose("depth", 3) + 1
	active := rs.AllResources[vr.Choose("resource", 3)]
	queues, chain := c08Chain(depth, active)
	vm := resource_info.NewResourceVectorMap()
	var cpu, mem, gpus float64
	switch active {
	case rs.CpuResource:
		cpu = vr.AnyFloatNat("t.cpu", c08Bits)
	case rs.MemoryResource:
		mem = vr.AnyFloatNat("t.mem", c08Bits)
	default:
		gpus = vr.AnyFloatNat("t.gpus", 8)
	}
	t := vs.NewTask("t", "job", "", cpu, mem, vs.GpuSpec{Kind: 0, Whole: gpus}, pod_status.Pending, "", vm)
	job := vs.NewJob("job", "q0", vr.AnyBool("preemptible"), 0, 1, vm, t)
	pp := &proportionPlugin{queues: queues}
	ssn := c08Session(job)
	node := vs.NewNode("n1", 1<<40, 1<<40, 1<<20, 100, 16000, vm)
	var before [][2]float64
	for _, q := range chain {
		s := q.ResourceShare(active)
		before = append(before, [2]float64{s.Allocated, s.AllocatedNotPreemptible})
	}
	c08Place(node, job, t, pp.allocateHandlerFn(ssn))
	pp.deallocateHandlerFn(ssn)(&framework.Event{Task: t})
	for i, q := range chain {
		s := q.ResourceShare(active)
		vr.Assert(s.Allocated == before[i][0], "C08.undone-step-restores-allocated")
		vr.Assert(s.AllocatedNotPreemptible == before[i][1], "C08.undone-step-restores-non-preemptible-allocated")
	}
}
