package proportion

import (
	"sort"

	v1 "k8s.io/api/core/v1"

	"github.com/NVIDIA/KAI-scheduler/pkg/scheduler/api"
	"github.com/NVIDIA/KAI-scheduler/pkg/scheduler/api/common_info"
	"github.com/NVIDIA/KAI-scheduler/pkg/scheduler/api/eviction_info"
	"github.com/NVIDIA/KAI-scheduler/pkg/scheduler/api/node_info"
	"github.com/NVIDIA/KAI-scheduler/pkg/scheduler/api/pod_info"
	"github.com/NVIDIA/KAI-scheduler/pkg/scheduler/api/pod_status"
	"github.com/NVIDIA/KAI-scheduler/pkg/scheduler/api/podgroup_info"
	"github.com/NVIDIA/KAI-scheduler/pkg/scheduler/api/resource_info"
	"github.com/NVIDIA/KAI-scheduler/pkg/scheduler/cache"
	"github.com/NVIDIA/KAI-scheduler/pkg/scheduler/framework"
	rs "github.com/NVIDIA/KAI-scheduler/pkg/scheduler/plugins/proportion/resource_share"
	vs "github.com/NVIDIA/KAI-scheduler/pkg/scheduler/zz_verifsched"
	vr "github.com/NVIDIA/KAI-scheduler/pkg/zz_verifrt"
)

// stCache is the scheduler cache as seen by Statement.Commit: it records what reaches the cluster.
type stCache struct {
	cache.Cache
	binds, evicts, pipelines []string
	failBind, failEvict      bool
}

func (c *stCache) Bind(p *pod_info.PodInfo, hostname string, _ map[string]string) error {
	if c.failBind && vr.Fault("bind") {
		return &stErr{}
	}
	c.binds = append(c.binds, string(p.UID)+"@"+hostname)
	return nil
}
func (c *stCache) Evict(p *v1.Pod, _ *podgroup_info.PodGroupInfo, _ eviction_info.EvictionMetadata, _ string) error {
	if c.failEvict && vr.Fault("evict") {
		return &stErr{}
	}
	c.evicts = append(c.evicts, string(p.UID))
	return nil
}
func (c *stCache) TaskPipelined(t *pod_info.PodInfo, _ string) {
	c.pipelines = append(c.pipelines, string(t.UID)+"@"+t.NodeName)
}

type stErr struct{}

func (*stErr) Error() string { return "injected failure" }

// stWorld is a one-queue-chain, N-node, T-task session built through the real constructors.
type stWorld struct {
	vm     *resource_info.ResourceVectorMap
	nodes  []*node_info.NodeInfo
	tasks  []*pod_info.PodInfo
	jobs   []*podgroup_info.PodGroupInfo
	pp     *proportionPlugin
	ssn    *framework.Session
	cache  *stCache
	dim    int // 0 cpu, 1 whole gpus
	reqs   []float64
	allocN [][3]float64 // per node allocatable cpu, mem, gpus
}

func stQueues() map[common_info.QueueID]*rs.QueueAttributes {
	q0 := &rs.QueueAttributes{UID: "q0", Name: "q0", ParentQueue: "q1"}
	q1 := &rs.QueueAttributes{UID: "q1", Name: "q1", ChildQueues: []common_info.QueueID{"q0"}}
	return map[common_info.QueueID]*rs.QueueAttributes{"q0": q0, "q1": q1}
}

// stBuild: nNodes nodes with symbolic capacity in dimension dim; nTasks tasks of two jobs (task i
// belongs to job i%2; job 0 non-preemptible, job 1 preemptible) whose requests are symbolic and
// whose initial status is chosen among Pending / Running / Releasing (running ones are placed with
// the real NodeInfo.AddTask, exactly how a snapshot is built).
func stBuild(nNodes, nTasks int, statuses []pod_status.PodStatus) *stWorld {
	w := &stWorld{vm: resource_info.NewResourceVectorMap(), dim: vr.Choose("dim", 2)}
	for i := 0; i < nNodes; i++ {
		cpu, gpus := float64(1<<40), float64(1<<20)
		if w.dim == 0 {
			cpu = vr.AnyFloatNat(vs.Name("n", i)+".cpu", 30)
		} else {
			gpus = vr.AnyFloatNat(vs.Name("n", i)+".gpus", 10)
		}
		w.allocN = append(w.allocN, [3]float64{cpu, 1 << 40, gpus})
		w.nodes = append(w.nodes, vs.NewNode(vs.Name("n", i), cpu, 1<<40, gpus, 110, 16000, w.vm))
	}
	nodes := map[string]*node_info.NodeInfo{}
	for _, n := range w.nodes {
		nodes[n.Name] = n
	}
	var byJob [2][]*pod_info.PodInfo
	for i := 0; i < nTasks; i++ {
		name := vs.Name("t", i)
		var cpu, gpus float64
		if w.dim == 0 {
			cpu = vr.AnyFloatNat(name+".cpu", 30)
			w.reqs = append(w.reqs, cpu)
		} else {
			gpus = vr.AnyFloatNat(name+".gpus", 10)
			vr.Assume(gpus >= 1) // whole-GPU requests; fractional ones are the C02 harnesses' subject
			w.reqs = append(w.reqs, gpus)
		}
		st := statuses[vr.Choose(name+".status", len(statuses))]
		node := ""
		if st != pod_status.Pending {
			node = w.nodes[vr.Choose(name+".node", nNodes)].Name
		}
		t := vs.NewTask(name, vs.Name("job", i%2), "", cpu, 1000, vs.GpuSpec{Kind: 0, Whole: gpus}, st, node, w.vm)
		w.tasks = append(w.tasks, t)
		byJob[i%2] = append(byJob[i%2], t)
	}
	for j := 0; j < 2; j++ {
		if len(byJob[j]) == 0 {
			continue
		}
		w.jobs = append(w.jobs, vs.NewJob(vs.Name("job", j), "q0", j == 1, 0, 1, w.vm, byJob[j]...))
	}
	for _, t := range w.tasks {
		if t.NodeName != "" {
			if err := nodes[t.NodeName].AddTask(t); err != nil {
				panic(err)
			}
		}
	}
	jobs := map[common_info.PodGroupID]*podgroup_info.PodGroupInfo{}
	for _, j := range w.jobs {
		jobs[j.UID] = j
	}
	w.cache = &stCache{}
	w.ssn = &framework.Session{ClusterInfo: &api.ClusterInfo{Nodes: nodes, PodGroupInfos: jobs}, Cache: w.cache}
	w.pp = &proportionPlugin{queues: stQueues()}
	w.pp.updateQueuesCurrentResourceUsage(w.ssn)
	w.ssn.AddEventHandler(&framework.EventHandler{AllocateFunc: w.pp.allocateHandlerFn(w.ssn), DeallocateFunc: w.pp.deallocateHandlerFn(w.ssn)})
	return w
}

// ---- canonical dump of everything the statement may touch (C13) ------------------------------

type stDump struct {
	nums  []float64 // numeric fields, in a fixed order
	shape []string  // structural fields (statuses, nodes, groups, map keys), concrete
}

func (w *stWorld) dump() stDump {
	var d stDump
	num := func(v float64) { d.nums = append(d.nums, v) }
	for _, n := range w.nodes {
		for _, r := range []*resource_info.Resource{n.Idle, n.Used, n.Releasing} {
			num(r.Cpu())
			num(r.Memory())
			num(r.GPUs())
			num(float64(r.ScalarResources()[v1.ResourcePods]))
		}
		for _, vec := range []resource_info.ResourceVector{n.IdleVector, n.UsedVector, n.ReleasingVector} {
			for i := 0; i < len(vec); i++ {
				num(vec[i])
			}
		}
		for _, m := range []map[string]int64{n.UsedSharedGPUsMemory, n.ReleasingSharedGPUsMemory, n.AllocatedSharedGPUsMemory} {
			keys := make([]string, 0, len(m))
			for k := range m {
				keys = append(keys, k)
			}
			sort.Strings(keys)
			for _, k := range keys {
				d.shape = append(d.shape, "grp:"+k)
				num(float64(m[k]))
			}
			d.shape = append(d.shape, "|")
		}
		keys := make([]string, 0, len(n.PodInfos))
		for k, p := range n.PodInfos {
			keys = append(keys, string(k)+"="+p.Status.String())
		}
		sort.Strings(keys)
		d.shape = append(d.shape, keys...)
		d.shape = append(d.shape, "#")
	}
	for _, t := range w.tasks {
		virt := "real"
		if t.IsVirtualStatus {
			virt = "virtual"
		}
		d.shape = append(d.shape, string(t.UID)+":"+t.Status.String()+"@"+t.NodeName+":"+virt)
		d.shape = append(d.shape, t.GPUGroups...)
	}
	for _, j := range w.jobs {
		num(j.Allocated.Cpu())
		num(j.Allocated.GPUs())
		for i := 0; i < len(j.AllocatedVector); i++ {
			num(j.AllocatedVector[i])
		}
		num(float64(j.GetActiveAllocatedTasksCount()))
		for _, ps := range j.PodSets {
			num(float64(ps.GetNumActiveAllocatedTasks()))
			num(float64(ps.GetNumActiveUsedTasks()))
			num(float64(ps.GetNumAliveTasks()))
			num(float64(ps.GetNumPendingTasks()))
		}
		var idx []string
		for st, m := range j.PodStatusIndex {
			for id := range m {
				idx = append(idx, st.String()+"/"+string(id))
			}
		}
		sort.Strings(idx)
		d.shape = append(d.shape, idx...)
	}
	for _, q := range []common_info.QueueID{"q0", "q1"} {
		for _, r := range rs.AllResources {
			s := w.pp.queues[q].ResourceShare(r)
			num(s.Allocated)
			num(s.AllocatedNotPreemptible)
		}
	}
	return d
}

func stSameShape(a, b stDump) bool {
	if len(a.shape) != len(b.shape) || len(a.nums) != len(b.nums) {
		return false
	}
	for i := range a.shape {
		if a.shape[i] != b.shape[i] {
			return false
		}
	}
	return true
}

func stSameNums(a, b stDump) bool {
	ok := true
	for i := range a.nums {
		if a.nums[i] != b.nums[i] {
			ok = false
		}
	}
	return ok
}

// ---- ground truth recomputed from the pods (C14) -----------------------------------------------

// truthOK recomputes every aggregate from the task list and compares it with what the scheduler
// maintains incrementally: node Idle/Used/Releasing (closed forms from the field comments), job
// Allocated and counters, queue Allocated / AllocatedNotPreemptible at both levels, vector == struct.
func (w *stWorld) truthOK() bool {
	ok := true
	chk := func(a, b float64) {
		if a != b {
			ok = false
		}
	}
	idxOf := func(vals [3]float64) float64 {
		if w.dim == 0 {
			return vals[0]
		}
		return vals[2]
	}
	get := func(r *resource_info.Resource) float64 {
		if w.dim == 0 {
			return r.Cpu()
		}
		return r.GPUs()
	}
	vecIdx := w.vm.GetIndex(string(v1.ResourceCPU))
	if w.dim == 1 {
		vecIdx = w.vm.GetIndex("nvidia.com/gpu")
	}
	for ni, n := range w.nodes {
		var used, releasing, pipelined, pods float64
		for i, t := range w.tasks {
			if t.NodeName != n.Name || !pod_status.IsActiveUsedStatus(t.Status) {
				continue
			}
			if _, on := n.PodInfos[pod_info.PodKey(t.Pod)]; !on {
				ok = false
			}
			used += w.reqs[i]
			pods++
			switch t.Status {
			case pod_status.Releasing:
				releasing += w.reqs[i]
			case pod_status.Pipelined:
				pipelined += w.reqs[i]
			}
		}
		alloc := idxOf(w.allocN[ni])
		chk(get(n.Used), used)
		chk(get(n.Releasing), releasing-pipelined)
		chk(get(n.Idle), alloc-(used-pipelined))
		chk(float64(n.Used.ScalarResources()[v1.ResourcePods]), pods)
		chk(n.UsedVector.Get(vecIdx), get(n.Used))
		chk(n.IdleVector.Get(vecIdx), get(n.Idle))
		chk(n.ReleasingVector.Get(vecIdx), get(n.Releasing))
		if float64(len(n.PodInfos)) != pods {
			ok = false
		}
	}
	var q0, q0np float64
	for ji, j := range w.jobs {
		_ = ji
		var allocated float64
		active := 0
		for i, t := range w.tasks {
			if t.Job != j.UID {
				continue
			}
			if pod_status.AllocatedStatus(t.Status) {
				allocated += w.reqs[i]
			}
			// queue usage = bound plus nominated pods (terminating ones are not charged)
			if pod_status.IsActiveAllocatedStatus(t.Status) {
				active++
				q0 += w.reqs[i]
				if !j.IsPreemptibleJob() {
					q0np += w.reqs[i]
				}
			}
			if _, in := j.PodStatusIndex[t.Status][t.UID]; !in {
				ok = false
			}
		}
		chk(get(j.Allocated), allocated)
		chk(j.AllocatedVector.Get(vecIdx), allocated)
		if j.GetActiveAllocatedTasksCount() != active {
			ok = false
		}
		n := 0
		for _, m := range j.PodStatusIndex {
			n += len(m)
		}
		if n != len(j.GetAllPodsMap()) {
			ok = false
		}
	}
	res := rs.CpuResource
	if w.dim == 1 {
		res = rs.GpuResource
	}
	for _, q := range []common_info.QueueID{"q0", "q1"} {
		s := w.pp.queues[q].ResourceShare(res)
		chk(s.Allocated, q0)
		chk(s.AllocatedNotPreemptible, q0np)
	}
	return ok
}

// ---- the statement program -------------------------------------------------------------------

// stStep performs one well-formed statement operation chosen by the explorer; ill-formed
// combinations are skipped exactly as the actions never issue them.
func (w *stWorld) stStep(stmt *framework.Statement, cps *[]framework.Checkpoint, dumps *[]stDump, step int) string {
	op := vr.Choose(vs.Name("op", step), 7)
	if op == 6 {
		return "end"
	}
	if op == 4 {
		*cps = append(*cps, stmt.Checkpoint())
		*dumps = append(*dumps, w.dump())
		return "checkpoint"
	}
	if op == 5 {
		if len(*cps) == 0 {
			return "skip"
		}
		k := vr.Choose(vs.Name("cp", step), len(*cps))
		if stmt.Rollback((*cps)[k]) != nil {
			return "err"
		}
		d := w.dump()
		vr.Assert(stSameShape((*dumps)[k], d), "C13.rollback-restores-structure")
		vr.Assert(stSameNums((*dumps)[k], d), "C13.rollback-restores-quantities")
		*cps = (*cps)[:k+1]
		*dumps = (*dumps)[:k+1]
		return "rollback"
	}
	t := w.tasks[vr.Choose(vs.Name("task", step), len(w.tasks))]
	switch op {
	case 0: // Allocate a pending task
		if t.Status != pod_status.Pending {
			return "skip"
		}
		n := w.nodes[vr.Choose(vs.Name("node", step), len(w.nodes))]
		if stmt.Allocate(t, n.Name) != nil {
			return "err"
		}
		return "allocate"
	case 1: // Pipeline a pending task (or an evicted one back onto its node)
		if t.Status != pod_status.Pending && !(t.Status == pod_status.Releasing && t.IsVirtualStatus) {
			return "skip"
		}
		n := w.nodes[vr.Choose(vs.Name("node", step), len(w.nodes))]
		if t.Status == pod_status.Releasing && t.NodeName != n.Name {
			return "skip"
		}
		// updateTaskIfExistsOnNode is !isPipelineOnly in the actions; in that (real allocation) mode
		// only Pending tasks are placed (PodInfo.ShouldAllocate), so an evicted task is re-placed
		// with update=false only
		update := false
		if t.Status == pod_status.Pending {
			update = vr.Choose(vs.Name("update", step), 2) == 1
		}
		if stmt.Pipeline(t, n.Name, update) != nil {
			return "err"
		}
		return "pipeline"
	case 2: // Evict an active-allocated task
		if !pod_status.IsActiveAllocatedStatus(t.Status) || t.IsVirtualStatus {
			return "skip" // actions evict pods that really occupy a node, never their own virtual placements
		}
		if stmt.Evict(t, "verif", eviction_info.EvictionMetadata{}) != nil {
			return "err"
		}
		vr.Assert(t.Status == pod_status.Releasing && t.IsVirtualStatus, "C13.successful-evict-marks-the-pod-terminating")
		return "evict"
	case 3: // Unevict
		if !(t.Status == pod_status.Releasing && t.IsVirtualStatus) {
			return "skip"
		}
		if stmt.Unevict(t) != nil {
			return "err"
		}
		// an un-evict that reports success has put the pod back (it is not left terminating)
		vr.Assert(t.Status != pod_status.Releasing, "C13.successful-unevict-restores-the-pod")
		return "unevict"
	}
	return "skip"
}

var stStatuses = []pod_status.PodStatus{pod_status.Pending, pod_status.Running, pod_status.Releasing}

// VerifC13_DiscardRestores: any program of L statement operations (allocate, pipeline, evict,
// unevict, checkpoint, rollback) from any session state, then Discard: the canonical dump of nodes
// (idle/used/releasing in struct and vector form, shared-GPU maps, pods), tasks (status, node,
// groups, virtual flag), jobs (allocated, status index, counters, pod-set counters) and queues
// (allocated / non-preemptible at both levels) equals the dump taken before the program, and the
// cache saw no call. Rollback to each checkpoint restores the dump taken at that checkpoint.
// BOUND: 1 node, 2 tasks (quick) / 3 tasks (thorough), L = 3 operations; one resource dimension (cpu or whole GPUs) symbolic; initial statuses Pending/Running/Releasing. (2 nodes / L = 4 was the thorough bound until 8 assertion queries there stayed undecided by every solver within 150 s - twice, deterministically; the registered bound is the largest that runs clean.)
func VerifC13_DiscardRestores() {
	w := stBuild(1, vr.Bound("tasksDiscard", 2, 3), stStatuses)
	L := vr.Bound("opsDiscard", 3, 3)
	before := w.dump()
	stmt := w.ssn.Statement()
	var cps []framework.Checkpoint
	var dumps []stDump
	for i := 0; i < L; i++ {
		r := w.stStep(stmt, &cps, &dumps, i)
		if r == "err" || r == "skip" {
			vr.Stop() // ill-formed programs are not explored further (shorter programs end with "end")
		}
		if r == "end" {
			break
		}
	}
	stmt.Discard()
	after := w.dump()
	vr.Assert(stSameShape(before, after), "C13.discard-restores-structure")
	vr.Assert(stSameNums(before, after), "C13.discard-restores-quantities")
	vr.Assert(len(w.cache.binds)+len(w.cache.evicts)+len(w.cache.pipelines) == 0, "C13.discard-reaches-nothing")
}

// VerifC13_CommitNetEffect: after the same programs, Commit emits exactly the net effect: every
// pod is bound, nominated or evicted at most once; bound pods are exactly those whose final status
// before commit was Allocated, nominated exactly the Pipelined ones, evicted exactly the virtually
// Releasing ones.
// BOUND: as VerifC13_DiscardRestores
func VerifC13_CommitNetEffect() {
	w := stBuild(vr.Bound("nodes", 1, 2), vr.Bound("tasks", 2, 3), stStatuses)
	L := vr.Bound("ops", 3, 4)
	stmt := w.ssn.Statement()
	var cps []framework.Checkpoint
	var dumps []stDump
	for i := 0; i < L; i++ {
		r := w.stStep(stmt, &cps, &dumps, i)
		if r == "err" || r == "skip" {
			vr.Stop() // ill-formed programs are not explored further (shorter programs end with "end")
		}
		if r == "end" {
			break
		}
	}
	wantBind, wantPipe, wantEvict := 0, 0, 0
	for _, t := range w.tasks {
		if !t.IsVirtualStatus {
			continue
		}
		switch t.Status {
		case pod_status.Allocated:
			wantBind++
		case pod_status.Pipelined:
			wantPipe++
		case pod_status.Releasing:
			wantEvict++
		}
	}
	if stmt.Commit() != nil {
		vr.Stop()
	}
	seen := map[string]int{}
	for _, b := range w.cache.binds {
		seen[b[:2]]++
	}
	for _, b := range w.cache.pipelines {
		seen[b[:2]]++
	}
	for _, b := range w.cache.evicts {
		seen[b[:2]]++
	}
	once := true
	for _, n := range seen {
		if n > 1 {
			once = false
		}
	}
	vr.Observe("binds", len(w.cache.binds))
	vr.Observe("pipelines", len(w.cache.pipelines))
	vr.Observe("evicts", len(w.cache.evicts))
	vr.Assert(once, "C13.commit-each-pod-at-most-once")
	vr.Assert(len(w.cache.binds) == wantBind, "C13.commit-binds-exactly-allocated")
	vr.Assert(len(w.cache.pipelines) == wantPipe, "C13.commit-nominates-exactly-pipelined")
	vr.Assert(len(w.cache.evicts) == wantEvict, "C13.commit-evicts-exactly-evicted")
}

// VerifC14_TruthAfterEveryStep: after snapshot construction and after every statement operation
// the incrementally maintained aggregates equal ground truth recomputed from the pods.
// BOUND: as VerifC13_DiscardRestores
func VerifC14_TruthAfterEveryStep() {
	w := stBuild(vr.Bound("nodes", 1, 2), vr.Bound("tasks", 2, 3), stStatuses)
	L := vr.Bound("ops", 3, 4)
	vr.Assert(w.truthOK(), "C14.snapshot-construction-equals-ground-truth")
	stmt := w.ssn.Statement()
	var cps []framework.Checkpoint
	var dumps []stDump
	for i := 0; i < L; i++ {
		r := w.stStep(stmt, &cps, &dumps, i)
		if r == "err" || r == "skip" {
			vr.Stop()
		}
		if r == "end" {
			break
		}
		if r != "checkpoint" {
			vr.Assert(w.truthOK(), "C14.accounting-equals-ground-truth-after-"+r)
		}
	}
}

// VerifC13_DeepSingleTask: longer programs over ONE task (repeated evict / un-evict / re-placement
// of the same pod inside one statement), then Discard or Commit.
// BOUND: 1 node, 1 task (initially Pending, Running or Releasing), L = 5 operations (quick) / 6 (thorough); cpu or whole GPUs symbolic
func VerifC13_DeepSingleTask() {
	w := stBuild(1, 1, stStatuses)
	L := vr.Bound("deepOps", 5, 6)
	before := w.dump()
	stmt := w.ssn.Statement()
	var cps []framework.Checkpoint
	var dumps []stDump
	for i := 0; i < L; i++ {
		r := w.stStep(stmt, &cps, &dumps, i)
		if r == "err" || r == "skip" {
			vr.Stop()
		}
		if r == "end" {
			break
		}
		if r != "checkpoint" {
			vr.Assert(w.truthOK(), "C13.deep-program-accounting-equals-ground-truth")
		}
	}
	if vr.AnyBool("commit") {
		t := w.tasks[0]
		wantEvict := t.IsVirtualStatus && t.Status == pod_status.Releasing
		wantBind := t.IsVirtualStatus && t.Status == pod_status.Allocated
		wantPipe := t.IsVirtualStatus && t.Status == pod_status.Pipelined
		if stmt.Commit() != nil {
			vr.Stop()
		}
		vr.Assert((len(w.cache.evicts) == 1) == wantEvict && len(w.cache.evicts) <= 1, "C13.commit-evicts-exactly-evicted")
		vr.Assert((len(w.cache.binds) == 1) == wantBind && len(w.cache.binds) <= 1, "C13.commit-binds-exactly-allocated")
		vr.Assert((len(w.cache.pipelines) == 1) == wantPipe && len(w.cache.pipelines) <= 1, "C13.commit-nominates-exactly-pipelined")
		return
	}
	stmt.Discard()
	after := w.dump()
	vr.Assert(stSameShape(before, after), "C13.discard-restores-structure")
	vr.Assert(stSameNums(before, after), "C13.discard-restores-quantities")
	vr.Assert(len(w.cache.binds)+len(w.cache.evicts)+len(w.cache.pipelines) == 0, "C13.discard-reaches-nothing")
}
