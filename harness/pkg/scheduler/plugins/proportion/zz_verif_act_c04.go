package proportion

import (
	v1 "k8s.io/api/core/v1"
	metav1 "k8s.io/apimachinery/pkg/apis/meta/v1"

	kaiv1alpha1 "github.com/NVIDIA/KAI-scheduler/pkg/apis/kai/v1alpha1"
	enginev2alpha2 "github.com/NVIDIA/KAI-scheduler/pkg/apis/scheduling/v2alpha2"
	"github.com/NVIDIA/KAI-scheduler/pkg/scheduler/actions/allocate"
	"github.com/NVIDIA/KAI-scheduler/pkg/scheduler/api/pod_info"
	"github.com/NVIDIA/KAI-scheduler/pkg/scheduler/api/pod_status"
	"github.com/NVIDIA/KAI-scheduler/pkg/scheduler/api/resource_info"
	"github.com/NVIDIA/KAI-scheduler/pkg/scheduler/framework"
	"github.com/NVIDIA/KAI-scheduler/pkg/scheduler/plugins/topology"
	"github.com/NVIDIA/KAI-scheduler/pkg/scheduler/scheduler_util"
	vs "github.com/NVIDIA/KAI-scheduler/pkg/scheduler/zz_verifsched"
	vr "github.com/NVIDIA/KAI-scheduler/pkg/zz_verifrt"
)

// VerifC04_TopologyAllocate: the real allocate action with the real topology plugin. A gang of two
// pods requires one domain at the "rack" or "zone" level of topology "topo" (or names a topology
// that does not exist); optionally one more pod of the workload is already running. Nodes: n0
// (zone z1, rack r1), n1 (z1, r2), n2 (z2, r3), n3 without the topology's labels (none at all, or only the finer one); the number of
// pods that fit on each node is symbolic (0..3), so the solver decides which domains have room.
// BOUND: 4 nodes (cpu = 16 x symbolic k, k in 0..3), 2-level topology, one workload: gang of 2 pending pods (+ optionally 1 running pod on n0 or n2), 16 milli-cpu per pod; required level rack / zone / unknown topology
func VerifC04_TopologyAllocate() {
	w := &actWorld{vm: resource_info.NewResourceVectorMap()}
	w.queues = []actQueue{{name: "d", parent: "", deserved: -1, limit: -1}, {name: "qa", parent: "d", deserved: 1 << 10, limit: -1}}
	labels := []map[string]string{{"zone": "z1", "rack": "r1"}, {"zone": "z1", "rack": "r2"}, {"zone": "z2", "rack": "r3"}, {}}
	if vr.AnyBool("n3.hasRackLabelOnly") {
		labels[3] = map[string]string{"rack": "r9"} // lacks the topology's top-level label
	}
	for i, l := range labels {
		name := vs.Name("n", i)
		w.addNode(name, 16*vr.AnyFloatNat(name+".podsThatFit", 2))
		for k, v := range l {
			w.nodes[i].Node.Labels[k] = v
		}
	}
	cpu := 16.0                        // every pod requests 16 milli-cpu; a node's cpu is a symbolic multiple of it
	kind := vr.Choose("constraint", 3) // 0 rack, 1 zone, 2 unknown topology
	tc := enginev2alpha2.TopologyConstraint{Topology: "topo", RequiredTopologyLevel: []string{"rack", "zone", "rack"}[kind]}
	if kind == 2 {
		tc.Topology = "no-such-topology"
	}
	cpus := []float64{cpu, cpu}
	sts := []pod_status.PodStatus{pod_status.Pending, pod_status.Pending}
	on := []string{"", ""}
	running := vr.Choose("runningPod", 3) // 0 none, 1 on n0, 2 on n2
	if running > 0 {
		cpus, sts, on = append(cpus, cpu), append(sts, pod_status.Running), append(on, []string{"", "n0", "n2"}[running])
	}
	var tasks []*pod_info.PodInfo
	for i := range cpus {
		tasks = append(tasks, vs.NewTask(vs.Name("g-t", i), "g", "", cpus[i], 0, vs.GpuSpec{}, sts[i], on[i], w.vm))
	}
	g := &actJob{name: "g", queue: "qa", preempt: true, cpu: cpus, tasks: tasks}
	// the PodGroup carries the constraint; SetPodGroup (inside the builder) derives the pod set's constraint from it
	g.job = vs.NewJobWithTopology("g", "qa", 2, tc, w.vm, tasks...)
	w.jobs = append(w.jobs, g)
	w.open()
	for n, node := range w.nodes {
		vr.Assume(w.usedOn(node.Name) <= w.ncpu[n])
	}
	w.ssn.ClusterInfo.Topologies = []*kaiv1alpha1.Topology{{ObjectMeta: metav1.ObjectMeta{Name: "topo"},
		Spec: kaiv1alpha1.TopologySpec{Levels: []kaiv1alpha1.TopologyLevel{{NodeLabel: "zone"}, {NodeLabel: "rack"}}}}}
	topology.New(framework.PluginArguments{}).OnSessionOpen(w.ssn)
	w.symbolicFairShares(8)
	allocate.New().Execute(w.ssn)
	placedOn := []string{}
	for _, t := range tasks {
		if t.Status != pod_status.Pending {
			placedOn = append(placedOn, t.NodeName)
		}
	}
	newlyPlaced := len(placedOn)
	if running > 0 {
		newlyPlaced--
	}
	vr.Observe("newlyPlaced", newlyPlaced)
	vr.Cover(newlyPlaced == 2 && kind == 0, "C04.cover.gang-placed-within-a-rack")
	vr.Cover(newlyPlaced == 2 && kind == 1, "C04.cover.gang-placed-within-a-zone")
	if kind == 2 {
		vr.Assert(newlyPlaced == 0, "C04.workload-naming-a-missing-topology-is-not-placed")
		return
	}
	if newlyPlaced == 0 {
		return
	}
	level := tc.RequiredTopologyLevel
	domain := func(node string) (string, bool) {
		for i, n := range w.nodes {
			if n.Name == node {
				if _, ok := labels[i]["zone"]; !ok {
					return "", false
				}
				if level == "zone" {
					return labels[i]["zone"], true
				}
				return labels[i]["zone"] + "/" + labels[i]["rack"], true
			}
		}
		return "", false
	}
	first, ok := domain(placedOn[0])
	vr.Assert(ok, "C04.nodes-without-the-topology-labels-are-never-used")
	for _, n := range placedOn[1:] {
		d, ok := domain(n)
		vr.Assert(ok, "C04.nodes-without-the-topology-labels-are-never-used")
		vr.Assert(d == first, "C04.placed-and-active-pods-lie-in-one-domain-at-the-required-level")
	}
}

// VerifC04_NodeConditions: a node is usable only if it is schedulable, Ready and free of pressure /
// network-unavailable conditions (the scheduler's own node condition predicate).
// BOUND: node condition lists of length 0..2 (quick) / 0..3 (thorough) over the 5 relevant condition types x 3 statuses; unschedulable flag explored
func VerifC04_NodeConditions() {
	types := []v1.NodeConditionType{v1.NodeReady, v1.NodeMemoryPressure, v1.NodeDiskPressure, v1.NodePIDPressure, v1.NodeNetworkUnavailable}
	statuses := []v1.ConditionStatus{v1.ConditionTrue, v1.ConditionFalse, v1.ConditionUnknown}
	node := &v1.Node{ObjectMeta: metav1.ObjectMeta{Name: "n"}}
	node.Spec.Unschedulable = vr.AnyBool("unschedulable")
	n := vr.Choose("conditions", vr.Bound("maxConditions", 3, 4))
	for i := 0; i < n; i++ {
		node.Status.Conditions = append(node.Status.Conditions, v1.NodeCondition{
			Type: types[vr.Choose(vs.Name("type", i), len(types))], Status: statuses[vr.Choose(vs.Name("status", i), 3)]})
	}
	ok, _, err := scheduler_util.CheckNodeConditionPredicate(node)
	vr.Observe("ok", ok)
	if err != nil || !ok {
		return
	}
	vr.Assert(!node.Spec.Unschedulable, "C04.accepted-node-is-schedulable")
	for _, c := range node.Status.Conditions {
		if c.Type == v1.NodeReady {
			vr.Assert(c.Status == v1.ConditionTrue, "C04.accepted-node-is-ready")
		} else {
			vr.Assert(c.Status == v1.ConditionFalse, "C04.accepted-node-is-free-of-pressure-conditions")
		}
	}
}

// VerifC04_NestedTopologyAllocate: a workload requires one zone of topology "zones"; its sub-group
// "workers" (a gang of two) additionally requires one block of a different topology "blocks" whose
// domains cross-cut the zones (n0: z1/b1, n1: z1/b2, n2: z2/b1, n3: z2/b2). Both constraints must
// hold at the same time for whatever the real allocate action places.
// BOUND: 4 nodes (cpu = 16 x symbolic k, k in 0..3), two single-level topologies, one workload with a sub-group gang of 2 (16 milli-cpu per pod)
func VerifC04_NestedTopologyAllocate() {
	w := &actWorld{vm: resource_info.NewResourceVectorMap()}
	w.queues = []actQueue{{name: "d", parent: "", deserved: -1, limit: -1}, {name: "qa", parent: "d", deserved: 1 << 10, limit: -1}}
	labels := []map[string]string{{"zone": "z1", "block": "b1"}, {"zone": "z1", "block": "b2"}, {"zone": "z2", "block": "b1"}, {"zone": "z2", "block": "b2"}}
	for i, l := range labels {
		name := vs.Name("n", i)
		w.addNode(name, 16*vr.AnyFloatNat(name+".podsThatFit", 2))
		for k, v := range l {
			w.nodes[i].Node.Labels[k] = v
		}
	}
	var tasks []*pod_info.PodInfo
	for i := 0; i < 2; i++ {
		tasks = append(tasks, vs.NewTask(vs.Name("g-t", i), "g", "workers", 16, 0, vs.GpuSpec{}, pod_status.Pending, "", w.vm))
	}
	g := &actJob{name: "g", queue: "qa", preempt: true, cpu: []float64{16, 16}, tasks: tasks}
	g.job = vs.NewJobWithTopologyAndSubGroups("g", "qa", 2,
		enginev2alpha2.TopologyConstraint{Topology: "zones", RequiredTopologyLevel: "zone"},
		[]enginev2alpha2.SubGroup{{Name: "workers", MinMember: 2, TopologyConstraint: &enginev2alpha2.TopologyConstraint{Topology: "blocks", RequiredTopologyLevel: "block"}}},
		w.vm, tasks...)
	w.jobs = append(w.jobs, g)
	w.open()
	w.ssn.ClusterInfo.Topologies = []*kaiv1alpha1.Topology{
		{ObjectMeta: metav1.ObjectMeta{Name: "zones"}, Spec: kaiv1alpha1.TopologySpec{Levels: []kaiv1alpha1.TopologyLevel{{NodeLabel: "zone"}}}},
		{ObjectMeta: metav1.ObjectMeta{Name: "blocks"}, Spec: kaiv1alpha1.TopologySpec{Levels: []kaiv1alpha1.TopologyLevel{{NodeLabel: "block"}}}},
	}
	topology.New(framework.PluginArguments{}).OnSessionOpen(w.ssn)
	w.symbolicFairShares(8)
	allocate.New().Execute(w.ssn)
	var on []int
	for _, t := range tasks {
		if t.Status != pod_status.Pending {
			for i, n := range w.nodes {
				if n.Name == t.NodeName {
					on = append(on, i)
				}
			}
		}
	}
	vr.Observe("placed", len(on))
	vr.Cover(len(on) == 2, "C04.cover.nested-gang-placed")
	if len(on) == 2 {
		vr.Assert(labels[on[0]]["zone"] == labels[on[1]]["zone"], "C04.parent-constraint-holds-together-with-the-sub-groups")
		vr.Assert(labels[on[0]]["block"] == labels[on[1]]["block"], "C04.sub-group-constraint-holds-together-with-the-parents")
	}
}
