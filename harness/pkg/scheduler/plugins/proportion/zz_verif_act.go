package proportion

// Action-level world: a real framework.Session over a harness-built ClusterInfo, with the real
// plugins proportion / priority / elastic / subgrouporder / taskorder / minruntime opened through
// their own OnSessionOpen, on which the real actions (allocate, reclaim, preempt) are executed.
// The only un-encodable part of opening the session - the weight-normalised fair-share division
// (DESIGN.md C09) - is skipped under the engine (verifrt.SkipCalls) and every queue's FairShare is
// then set to a symbolic value constrained by the division's contract, i.e. to every value the
// division could produce (and more); natively the division runs and is overwritten by the model's
// values, so both executions continue from the same state.

import (
	"strings"
	"time"

	metav1 "k8s.io/apimachinery/pkg/apis/meta/v1"
	"k8s.io/apimachinery/pkg/types"

	enginev2 "github.com/NVIDIA/KAI-scheduler/pkg/apis/scheduling/v2"
	"github.com/NVIDIA/KAI-scheduler/pkg/scheduler/api"
	"github.com/NVIDIA/KAI-scheduler/pkg/scheduler/api/common_info"
	"github.com/NVIDIA/KAI-scheduler/pkg/scheduler/api/node_info"
	"github.com/NVIDIA/KAI-scheduler/pkg/scheduler/api/pod_info"
	"github.com/NVIDIA/KAI-scheduler/pkg/scheduler/api/pod_status"
	"github.com/NVIDIA/KAI-scheduler/pkg/scheduler/api/podgroup_info"
	"github.com/NVIDIA/KAI-scheduler/pkg/scheduler/api/queue_info"
	"github.com/NVIDIA/KAI-scheduler/pkg/scheduler/api/resource_info"
	"github.com/NVIDIA/KAI-scheduler/pkg/scheduler/cache/cluster_info"
	"github.com/NVIDIA/KAI-scheduler/pkg/scheduler/conf"
	"github.com/NVIDIA/KAI-scheduler/pkg/scheduler/framework"
	"github.com/NVIDIA/KAI-scheduler/pkg/scheduler/plugins/elastic"
	"github.com/NVIDIA/KAI-scheduler/pkg/scheduler/plugins/minruntime"
	"github.com/NVIDIA/KAI-scheduler/pkg/scheduler/plugins/priority"
	rs "github.com/NVIDIA/KAI-scheduler/pkg/scheduler/plugins/proportion/resource_share"
	"github.com/NVIDIA/KAI-scheduler/pkg/scheduler/plugins/subgrouporder"
	"github.com/NVIDIA/KAI-scheduler/pkg/scheduler/plugins/taskorder"
	vs "github.com/NVIDIA/KAI-scheduler/pkg/scheduler/zz_verifsched"
	vr "github.com/NVIDIA/KAI-scheduler/pkg/zz_verifrt"
)

const actBits = 10 // symbolic milli-cpu quantities are in [0, 2^10)

type actQueue struct {
	name, parent    string
	deserved, limit float64 // cpu; -1 = unlimited
	reclaimMinH     *int64  // reclaim / preempt min-runtime in whole hours (nil: unset)
	preemptMinH     *int64
}

type actJob struct {
	name     string
	ageH     int64 // hours since the job last started (running jobs)
	job      *podgroup_info.PodGroupInfo
	tasks    []*pod_info.PodInfo
	cpu      []float64 // per task
	queue    string
	priority int32
	created  int64 // seconds offset
	preempt  bool
}

type actWorld struct {
	gpuDim bool // quantities are whole GPUs (else milli-cpu); the other dimension is not requested
	// milliCpu: in a GPU world every pod also asks 100 milli-cpu (never scarce); a job named here asks this much instead
	milliCpu map[string]float64
	// fixedFS: fair shares taken over from an earlier world (the next cycle of the same cluster) instead of fresh inputs
	fixedFS map[string]float64
	fs      map[string]float64 // the fair shares symbolicFairShares chose
	vm      *resource_info.ResourceVectorMap
	nodes   []*node_info.NodeInfo
	ncpu    []float64
	queues  []actQueue
	jobs    []*actJob
	cache   *stCache
	ssn     *framework.Session
	pp      *proportionPlugin
}

func (w *actWorld) addNode(name string, cpu float64) {
	if w.gpuDim {
		w.nodes = append(w.nodes, vs.NewNode(name, 1<<30, 1<<40, cpu, 110, 16000, w.vm))
	} else {
		w.nodes = append(w.nodes, vs.NewNode(name, cpu, 1<<40, 0, 110, 16000, w.vm))
	}
	w.ncpu = append(w.ncpu, cpu)
}

// addJob: a job of len(cpus) tasks; running tasks are placed with the real NodeInfo.AddTask later.
func (w *actWorld) addJob(name, queue string, preemptible bool, prio int32, created int64, minMember int32, cpus []float64, statuses []pod_status.PodStatus, nodes []string) *actJob {
	aj := &actJob{name: name, queue: queue, priority: prio, created: created, preempt: preemptible, cpu: cpus}
	for i := range cpus {
		var t *pod_info.PodInfo
		if w.gpuDim {
			mc := 100.0
			if v, ok := w.milliCpu[name]; ok {
				mc = v
			}
			t = vs.NewTask(vs.Name(name+"-t", i), name, "", mc, 0, vs.GpuSpec{Whole: cpus[i]}, statuses[i], nodes[i], w.vm)
		} else {
			t = vs.NewTask(vs.Name(name+"-t", i), name, "", cpus[i], 0, vs.GpuSpec{}, statuses[i], nodes[i], w.vm)
		}
		aj.tasks = append(aj.tasks, t)
	}
	aj.job = vs.NewJob(name, queue, preemptible, prio, minMember, w.vm, aj.tasks...)
	base := time.Date(2025, 1, 1, 0, 0, 0, 0, time.UTC)
	aj.job.CreationTimestamp = metav1.Time{Time: base.Add(time.Duration(created) * time.Second)}
	aj.job.PodGroup.CreationTimestamp = aj.job.CreationTimestamp
	w.jobs = append(w.jobs, aj)
	return aj
}

// open builds the session and opens the plugins.
func (w *actWorld) open() {
	qmap := map[common_info.QueueID]*queue_info.QueueInfo{}
	for i, q := range w.queues {
		obj := &enginev2.Queue{
			ObjectMeta: metav1.ObjectMeta{Name: q.name, UID: types.UID(q.name),
				CreationTimestamp: metav1.Time{Time: time.Date(2024, 1, 1, 0, i, 0, 0, time.UTC)}},
			Spec: enginev2.QueueSpec{DisplayName: q.name, ParentQueue: q.parent, Resources: &enginev2.QueueResources{
				GPU:    enginev2.QueueResource{Quota: -1, Limit: -1, OverQuotaWeight: 1},
				CPU:    enginev2.QueueResource{Quota: -1, Limit: -1, OverQuotaWeight: 1},
				Memory: enginev2.QueueResource{Quota: -1, Limit: -1, OverQuotaWeight: 1},
			}},
		}
		if q.reclaimMinH != nil {
			obj.Spec.ReclaimMinRuntime = &metav1.Duration{Duration: time.Duration(*q.reclaimMinH) * time.Hour}
		}
		if q.preemptMinH != nil {
			obj.Spec.PreemptMinRuntime = &metav1.Duration{Duration: time.Duration(*q.preemptMinH) * time.Hour}
		}
		if w.gpuDim {
			obj.Spec.Resources.GPU = enginev2.QueueResource{Quota: q.deserved, Limit: q.limit, OverQuotaWeight: 1}
		} else {
			obj.Spec.Resources.CPU = enginev2.QueueResource{Quota: q.deserved, Limit: q.limit, OverQuotaWeight: 1}
		}
		qi := queue_info.NewQueueInfo(obj)
		qmap[qi.UID] = qi
	}
	cluster_info.UpdateQueueHierarchy(qmap)
	nodes := map[string]*node_info.NodeInfo{}
	for _, n := range w.nodes {
		nodes[n.Name] = n
	}
	jobs := map[common_info.PodGroupID]*podgroup_info.PodGroupInfo{}
	for _, aj := range w.jobs {
		jobs[aj.job.UID] = aj.job
		for _, t := range aj.tasks {
			if t.NodeName != "" {
				if err := nodes[t.NodeName].AddTask(t); err != nil {
					vr.Stop() // not a reachable snapshot (pods beyond capacity)
				}
			}
		}
	}
	w.cache = &stCache{}
	w.ssn = &framework.Session{
		Config:          &conf.SchedulerConfiguration{Tiers: []conf.Tier{{Plugins: []conf.PluginOption{}}}},
		ClusterInfo:     &api.ClusterInfo{Nodes: nodes, Queues: qmap, PodGroupInfos: jobs, MinNodeGPUMemory: node_info.DefaultGpuMemory},
		SchedulerParams: conf.SchedulerParams{QueueLabelKey: "kai.scheduler/queue"},
		Cache:           w.cache,
	}
	w.ssn.OverrideMaxNumberConsolidationPreemptees(-1)
	w.ssn.OverrideAllowConsolidatingReclaim(true)
	w.ssn.OverrideSchedulerName("kai-scheduler")

	vr.SkipCalls("github.com/NVIDIA/KAI-scheduler/pkg/scheduler/plugins/proportion/resource_division.SetResourcesShare")
	w.pp = New(framework.PluginArguments{}).(*proportionPlugin)
	w.pp.OnSessionOpen(w.ssn)
	priority.New(framework.PluginArguments{}).OnSessionOpen(w.ssn)
	elastic.New(framework.PluginArguments{}).OnSessionOpen(w.ssn)
	subgrouporder.New(framework.PluginArguments{}).OnSessionOpen(w.ssn)
	taskorder.New(framework.PluginArguments{}).OnSessionOpen(w.ssn)
	minruntime.New(framework.PluginArguments{}).OnSessionOpen(w.ssn)
}

func (w *actWorld) setFS(attrs *rs.QueueAttributes, res rs.ResourceName, v float64) {
	attrs.AddResourceShare(res, -attrs.ResourceShare(res).FairShare)
	attrs.AddResourceShare(res, v)
}

// ---- allocate -------------------------------------------------------------------------------

// actOpts selects what is symbolic in an allocate world (everything else is fixed), so that each
// property's harness pays only for the dimensions it quantifies over.
type actOpts struct {
	nNodes, nJobs int
	bits          int  // symbolic cpu quantities are in [0, 2^bits)
	sameQueue     bool // all jobs in leaf queue qa (else the queue of each job is explored)
	sameCpu       bool // all jobs share one symbolic cpu request (identical pod template)
	symPriority   bool // full int32 priorities (else 0)
	symCreated    bool // symbolic creation times (else job i created at second i)
	symLimits     bool // department and qa limits unlimited or symbolic (else unlimited)
	symPreempt    bool // preemptibility explored (else preemptible)
	existing      int  // pods already on node n0 (queue qb unless existingInQa), each in one of existingSt (default running or terminating), symbolic cpu
	existingInQa  bool
	existingSt    []pod_status.PodStatus
	gang          int  // job j0 is a gang of this many tasks with minMember == size (0/1: single pod)
	queueDepth    int  // > 0: configured queue depth of the allocate action (only that many jobs of a queue are considered)
	gangDead      bool // explored: the gang\'s last member has already failed and was not recreated yet
}

// actAllocateWorld: department d with leaf queues qa, qb; nodes with symbolic cpu; pending
// single-pod jobs.
func actAllocateWorld(o actOpts) *actWorld {
	w := &actWorld{vm: resource_info.NewResourceVectorMap()}
	for i := 0; i < o.nNodes; i++ {
		w.addNode(vs.Name("n", i), vr.AnyFloatNat(vs.Name("n", i)+".cpu", o.bits))
	}
	unl := func(name string) float64 { // a limit: unlimited or a symbolic amount
		if !o.symLimits || vr.AnyBool(name+".unlimited") {
			return -1
		}
		return vr.AnyFloatNat(name, o.bits+2)
	}
	w.queues = []actQueue{
		{name: "d", parent: "", deserved: -1, limit: unl("d.limit")},
		{name: "qa", parent: "d", deserved: vr.AnyFloatNat("qa.deserved", o.bits), limit: unl("qa.limit")},
		{name: "qb", parent: "d", deserved: vr.AnyFloatNat("qb.deserved", o.bits), limit: -1},
	}
	var shared float64
	if o.sameCpu {
		shared = vr.AnyFloatNat("cpu", o.bits)
		vr.Assume(shared >= 10)
	}
	for i := 0; i < o.nJobs; i++ {
		name := vs.Name("j", i)
		cpu := shared
		if !o.sameCpu {
			cpu = vr.AnyFloatNat(name+".cpu", o.bits)
			vr.Assume(cpu >= 10) // below 10 milli-cpu the scheduler treats the request as best-effort
		}
		q := "qa"
		if !o.sameQueue {
			q = []string{"qa", "qb"}[vr.Choose(name+".queue", 2)]
		}
		prio, created, preemptible := int32(0), int64(i), true
		if o.symPriority {
			prio = vr.AnyInt32(name+".priority", 32)
		}
		if o.symCreated {
			created = vr.AnyInt64(name+".created", 6)
			vr.Assume(created >= 0)
		}
		if o.symPreempt {
			preemptible = vr.AnyBool(name + ".preemptible")
		}
		if i == 0 && o.gang > 1 {
			cpus := make([]float64, o.gang)
			sts := make([]pod_status.PodStatus, o.gang)
			nds := make([]string, o.gang)
			for k := range cpus {
				cpus[k], sts[k] = cpu, pod_status.Pending
			}
			if o.gangDead && vr.AnyBool("gang.lastMemberFailed") {
				sts[o.gang-1] = pod_status.Failed
			}
			w.addJob(name, q, preemptible, prio, created, int32(o.gang), cpus, sts, nds)
			continue
		}
		w.addJob(name, q, preemptible, prio, created, 1, []float64{cpu}, []pod_status.PodStatus{pod_status.Pending}, []string{""})
	}
	for i := 0; i < o.existing; i++ {
		name := vs.Name("e", i)
		cpu := vr.AnyFloatNat(name+".cpu", o.bits)
		vr.Assume(cpu >= 10)
		sts := o.existingSt
		if len(sts) == 0 {
			sts = []pod_status.PodStatus{pod_status.Running, pod_status.Releasing}
		}
		st := sts[vr.Choose(name+".status", len(sts))]
		eq := "qb"
		if o.existingInQa {
			eq = "qa"
		}
		w.addJob(name, eq, true, 0, 0, 1, []float64{cpu}, []pod_status.PodStatus{st}, []string{"n0"})
	}
	w.open()
	if o.queueDepth > 0 {
		w.ssn.Config.QueueDepthPerAction = map[string]int{"allocate": o.queueDepth}
	}
	for n, node := range w.nodes {
		vr.Assume(w.usedOn(node.Name) <= w.ncpu[n]) // reachable snapshot: nothing oversubscribed yet
	}
	w.symbolicFairShares(o.bits)
	return w
}

// symbolicFairShares gives every queue a fair share that the (skipped) division could have produced
// (the contract C09 states, checked on the real division by C09's kernels): at least
// lower = min(deserved, request capped by limit) and at most the capped request; and among the
// children of one parent (the top-level queues divide the cluster's total) the surplus handed out on
// top of the quota step never exceeds what the quota step left: sum(fs - lower) <= max(0, P - sum lower).
// Oversubscribed quotas (sum lower > P) are therefore admitted, as in the real division. Memory and
// the dimension nobody requests get no share.
func (w *actWorld) symbolicFairShares(bits int) {
	fsOf, lowerOf := map[string]float64{}, map[string]float64{}
	total := 0.0
	for _, c := range w.ncpu {
		total += c
	}
	for _, q := range w.queues {
		attrs := w.pp.queues[common_info.QueueID(q.name)]
		var fs float64
		if v, ok := w.fixedFS[q.name]; ok {
			fs = v
		} else {
			fs = vr.AnyFloatNat("fairShare."+q.name, bits+3)
		}
		share := &attrs.CPU
		if w.gpuDim {
			share = &attrs.GPU
		}
		capped := share.Request
		if share.MaxAllowed >= 0 && share.MaxAllowed < capped {
			capped = share.MaxAllowed
		}
		// the quota step: an unlimited (-1) quota stands for everything the parent has to divide
		deserved := share.Deserved
		if deserved < 0 {
			deserved = total
			if q.parent != "" {
				deserved = fsOf[q.parent] // parents are listed before their children
			}
		}
		lower := capped
		if deserved < lower {
			lower = deserved
		}
		vr.Assume(fs >= lower && fs <= capped)
		fsOf[q.name], lowerOf[q.name] = fs, lower
		if w.gpuDim {
			w.setFS(attrs, rs.GpuResource, fs)
			w.setFS(attrs, rs.CpuResource, attrs.CPU.Request)
		} else {
			w.setFS(attrs, rs.CpuResource, fs)
			w.setFS(attrs, rs.GpuResource, 0)
		}
		w.setFS(attrs, rs.MemoryResource, 0)
	}
	parents := []actQueue{{name: ""}}
	parents = append(parents, w.queues...)
	for _, p := range parents {
		surplus, quotas, has := 0.0, 0.0, false
		for _, c := range w.queues {
			if c.parent == p.name {
				surplus += fsOf[c.name] - lowerOf[c.name]
				quotas += lowerOf[c.name]
				has = true
			}
		}
		if !has {
			continue
		}
		left := total - quotas
		if p.name != "" {
			left = fsOf[p.name] - quotas
		}
		if left < 0 {
			left = 0
		}
		vr.Assume(surplus <= left)
	}
	w.fs = fsOf
}

// placed: every pod of the job was bound or nominated (as recorded by the cluster-facing cache; the
// solver-based actions place a clone of the pending job) or left Pending status in the session.
func (w *actWorld) placed(aj *actJob) bool {
	for _, t := range aj.tasks {
		if t.Status != pod_status.Pending {
			continue
		}
		found := false
		for _, rec := range append(append([]string{}, w.cache.binds...), w.cache.pipelines...) {
			if strings.HasPrefix(rec, string(t.UID)+"@") {
				found = true
			}
		}
		if !found {
			return false
		}
	}
	return true
}

// usedOn recomputes from the pod list what occupies a node: running, terminating, bound, being
// bound or allocated pods (nominated ones do not occupy capacity yet).
func (w *actWorld) usedOn(node string) float64 {
	sum := 0.0
	for _, aj := range w.jobs {
		for i, t := range aj.tasks {
			if t.NodeName == node && t.Status != pod_status.Pending && t.Status != pod_status.Pipelined {
				sum += aj.cpu[i]
			}
		}
	}
	return sum
}

// reservedOn: what is nominated (pipelined) to a node.
func (w *actWorld) reservedOn(node string) float64 {
	sum := 0.0
	for _, aj := range w.jobs {
		for i, t := range aj.tasks {
			if t.NodeName == node && t.Status == pod_status.Pipelined {
				sum += aj.cpu[i]
			}
		}
	}
	return sum
}

func (w *actWorld) boundTask(t *pod_info.PodInfo) bool {
	for _, b := range w.cache.binds {
		if b == string(t.UID)+"@"+t.NodeName {
			return true
		}
	}
	return false
}

// queueAllocated recomputes a queue's allocation (own and descendants') from the pod list.
func (w *actWorld) queueAllocated(q string, nonPreemptibleOnly bool) float64 {
	sum := 0.0
	for _, aj := range w.jobs {
		in := aj.queue == q
		for _, x := range w.queues {
			if x.name == aj.queue && x.parent == q {
				in = true
			}
		}
		if !in || (nonPreemptibleOnly && aj.preempt) {
			continue
		}
		for i, t := range aj.tasks {
			if t.Status != pod_status.Pending && t.Status != pod_status.Releasing {
				sum += aj.cpu[i]
			}
		}
	}
	return sum
}

func (w *actWorld) queueOf(name string) actQueue {
	for _, q := range w.queues {
		if q.name == name {
			return q
		}
	}
	panic("no queue " + name)
}

// admits: the queue chain of aj admits its whole request on top of the current allocation (limits
// at every level; non-preemptible workloads within deserved quota at every level).
func (w *actWorld) admits(aj *actJob) bool {
	req := 0.0
	for i, t := range aj.tasks {
		if t.Status == pod_status.Pending {
			req += aj.cpu[i]
		}
	}
	for name := aj.queue; name != ""; name = w.queueOf(name).parent {
		q := w.queueOf(name)
		if q.limit >= 0 && w.queueAllocated(name, false)+req > q.limit {
			return false
		}
		if !aj.preempt && q.deserved >= 0 && w.queueAllocated(name, true)+req > q.deserved {
			return false
		}
	}
	return true
}
