package resource_division

import (
	"math"

	"github.com/NVIDIA/KAI-scheduler/pkg/scheduler/api/common_info"
	rs "github.com/NVIDIA/KAI-scheduler/pkg/scheduler/plugins/proportion/resource_share"
	vr "github.com/NVIDIA/KAI-scheduler/pkg/zz_verifrt"
)

const c09Bits = 20

func c09Queue(name string, res rs.ResourceName) *rs.QueueAttributes {
	q := &rs.QueueAttributes{UID: common_info.QueueID(name), Name: name}
	s := q.ResourceShare(res)
	s.Deserved = vr.AnyFloatInt(name+".deserved", c09Bits)
	s.MaxAllowed = vr.AnyFloatInt(name+".limit", c09Bits)
	s.Request = vr.AnyFloatNat(name+".request", c09Bits)
	vr.Assume(s.Deserved >= -1)
	vr.Assume(s.MaxAllowed >= -1)
	return q
}

// c09Capped is min(request, limit) with -1 = no limit, written from the statement.
func c09Capped(s *rs.ResourceShare) float64 {
	if s.MaxAllowed != -1 && s.MaxAllowed < s.Request {
		return s.MaxAllowed
	}
	return s.Request
}

// VerifC09_DeservedStep: the quota step of the division (setDeservedResource) on 1..3 sibling
// queues: every queue's fair share is exactly min(deserved, request capped by its limit) (deserved
// -1 = the whole total), and what is left is total minus the sum.
// BOUND: 1..3 queues; total, deserved, limit, request integers < 2^20 (-1 = unlimited)
func VerifC09_DeservedStep() {
	res := rs.GpuResource
	n := vr.Choose("queues", 3) + 1
	total := vr.AnyFloatNat("total", c09Bits)
	queues := map[common_info.QueueID]*rs.QueueAttributes{}
	var list []*rs.QueueAttributes
	for i := 0; i < n; i++ {
		q := c09Queue("q"+string(rune('0'+i)), res)
		queues[q.UID] = q
		list = append(list, q)
	}
	remaining := setDeservedResource(total, queues, res)
	sum := 0.0
	for _, q := range list {
		s := q.ResourceShare(res)
		want := c09Capped(s)
		d := s.Deserved
		if d == -1 {
			d = total
		}
		if d < want {
			want = d
		}
		vr.Assert(s.FairShare == want, "C09.quota-step-gives-min-of-deserved-and-capped-request")
		vr.Assert(s.FairShare <= c09Capped(s), "C09.fair-share-never-exceeds-capped-request-after-quota-step")
		sum += s.FairShare
	}
	vr.Observe("remaining", remaining)
	vr.Assert(remaining == total-sum, "C09.quota-step-conserves-total")
}

// VerifC09_RoundGrant: one grant of the over-quota loop (getResourceToGiveInCurrentRound) for
// EVERY value the un-encodable weighted product can take: fairShare is an arbitrary non-negative
// IEEE double, requested a symbolic integer. Never more than requested nor more than the fair
// share; an unsatisfied queue gets floor(fairShare) and its recorded remainder is in (0,1).
// BOUND: fairShare any double in [0, 2^30]; requested integer in [0, 2^20)
func VerifC09_RoundGrant() {
	fairShare := vr.AnyFloat64("fairShare")
	vr.Assume(fairShare >= 0 && fairShare <= 1<<30)
	requested := vr.AnyFloatNat("requested", c09Bits)
	q := &rs.QueueAttributes{UID: "q", Name: "q"}
	rem := map[common_info.QueueID]*remainingRequestedResource{}
	give := getResourceToGiveInCurrentRound(fairShare, requested, q, rem)
	vr.Observe("give", give)
	vr.Assert(give >= 0, "C09.grant-non-negative")
	vr.Assert(give <= requested, "C09.grant-at-most-requested")
	vr.Assert(give <= fairShare, "C09.grant-at-most-fair-share")
	if requested <= fairShare {
		vr.Assert(give == requested && len(rem) == 0, "C09.satisfied-queue-gets-its-request")
	} else {
		vr.Assert(give == math.Floor(fairShare), "C09.unsatisfied-queue-gets-floor-of-share")
		r, has := rem["q"]
		if has {
			vr.Assert(r.remainingAmount > 0 && r.remainingAmount < 1, "C09.rounding-remainder-below-one-unit")
		} else {
			vr.Assert(fairShare == math.Floor(fairShare), "C09.no-remainder-only-for-whole-shares")
		}
	}
}

// VerifC09_RemainderHandout: the last step (divideRemainingResource) hands each queue with a
// recorded remainder at most one unit, never more than is left, and conserves the amount.
// BOUND: 1..3 queues with remainders in a concrete menu; amount integer in [0, 2^20)
func VerifC09_RemainderHandout() {
	res := rs.GpuResource
	n := vr.Choose("queues", 3) + 1
	total := vr.AnyFloatNat("amount", c09Bits)
	rem := map[common_info.QueueID]*remainingRequestedResource{}
	var list []*rs.QueueAttributes
	menu := []float64{0.25, 0.5, 0.75}
	for i := 0; i < n; i++ {
		q := &rs.QueueAttributes{UID: common_info.QueueID("q" + string(rune('0'+i))), Name: "q"}
		rem[q.UID] = &remainingRequestedResource{queue: q, remainingAmount: menu[vr.Choose("remainder", 3)]}
		list = append(list, q)
	}
	left := divideRemainingResource(total, rem, res)
	given := 0.0
	for _, q := range list {
		g := q.ResourceShare(res).FairShare
		vr.Assert(g >= 0 && g <= 1, "C09.remainder-handout-at-most-one-unit-per-queue")
		given += g
	}
	vr.Observe("left", left)
	vr.Assert(left >= 0, "C09.remainder-handout-never-overdraws")
	vr.Assert(given+left == total, "C09.remainder-handout-conserves-amount")
	if total >= float64(n) {
		vr.Assert(given == float64(n), "C09.remainder-handout-serves-every-queue-when-enough")
	}
}

// VerifC09_Sentinels: the share accessors with -1 sentinels: satisfied <=> request <= fair share or
// limit reached; remaining requested = max(0, capped request - fair share).
// BOUND: integers < 2^20
func VerifC09_Sentinels() {
	res := rs.GpuResource
	q := c09Queue("q", res)
	s := q.ResourceShare(res)
	s.FairShare = vr.AnyFloatNat("q.fairShare", c09Bits)
	capped := c09Capped(s)
	vr.Assert(s.GetRequestableShare() == capped, "C09.requestable-share-is-request-capped-by-limit")
	wantRemaining := 0.0
	if capped > s.FairShare {
		wantRemaining = capped - s.FairShare
	}
	vr.Assert(getRemainingRequested(q, res) == wantRemaining, "C09.remaining-requested")
	sat := s.Request <= s.FairShare || (s.MaxAllowed != -1 && s.MaxAllowed <= s.FairShare)
	vr.Assert(isQueueSatisfied(q, res) == sat, "C09.satisfied-iff-request-or-limit-reached")
}

// VerifC09_PriorityOrder: getQueuesByPriority on two queues with arbitrary int priorities returns
// the priorities in descending order (higher over-quota priority is served first).
// BOUND: 2 queues, priorities over the whole int range
func VerifC09_PriorityOrder() {
	a := &rs.QueueAttributes{UID: "a", Name: "a", Priority: vr.AnyInt("a.priority", 64)}
	b := &rs.QueueAttributes{UID: "b", Name: "b", Priority: vr.AnyInt("b.priority", 64)}
	vr.Assume(a.Priority != b.Priority)
	_, prios := getQueuesByPriority(map[common_info.QueueID]*rs.QueueAttributes{"a": a, "b": b})
	vr.Assert(len(prios) == 2, "C09.two-priority-levels")
	huge := a.Priority >= 1<<62 || a.Priority < -(1<<62) || b.Priority >= 1<<62 || b.Priority < -(1<<62)
	if huge {
		vr.Assert(prios[0] > prios[1], "C09.priorities-served-in-descending-order#abs-priority-above-2^62")
	} else {
		vr.Assert(prios[0] > prios[1], "C09.priorities-served-in-descending-order")
	}
}

// VerifC09_ShareWeights: the time-based-fairness weights of one over-quota round (calcShareWeights)
// for two unsatisfied sibling queues: no weight is negative (a queue that used more than its share
// gets nothing, not a negative grant) and the returned normaliser is exactly the sum of the returned
// weights - so the normalised weights of a round add up to one and a round never hands out more than
// the amount it was given. Over-quota weights come from a concrete menu (the quotient w/total is
// then concrete); historical usage and the k-value are arbitrary doubles in their documented ranges
// (IEEE semantics in the FP theory; the sum is compared in both enumeration orders of the two queues
// because FP addition of three terms is order-sensitive only through the leading 0, which is exact).
// BOUND: 2 unsatisfied queues; over-quota weights in {1,2,3}; usage any double in [0,1]; k-value any double in [0, 2^10]
func VerifC09_ShareWeights() {
	res := rs.GpuResource
	k := vr.AnyFloat64("kValue")
	vr.Assume(k >= 0 && k <= 1<<10)
	queues := map[common_info.QueueID]*rs.QueueAttributes{}
	for _, name := range []string{"a", "b"} {
		q := &rs.QueueAttributes{UID: common_info.QueueID(name), Name: name}
		s := q.ResourceShare(res)
		s.Deserved, s.MaxAllowed, s.Request, s.FairShare = 0, -1, 8, 0
		s.OverQuotaWeight = float64(vr.Choose(name+".weight", 3) + 1)
		s.Usage = vr.AnyFloat64(name + ".usage")
		vr.Assume(s.Usage >= 0 && s.Usage <= 1)
		queues[q.UID] = q
	}
	weights, sum := calcShareWeights(queues, res, k)
	vr.Assert(len(weights) == 2, "C09.every-unsatisfied-queue-has-a-round-weight")
	vr.Assert(weights["a"] >= 0 && weights["b"] >= 0, "C09.round-weights-never-negative")
	vr.Assert(sum == 0.0+weights["a"]+weights["b"] || sum == 0.0+weights["b"]+weights["a"], "C09.round-normaliser-is-the-sum-of-the-round-weights")
	vr.Cover(weights["a"] == 0 && weights["b"] > 0, "C09.cover.usage-floors-a-weight-to-zero")
}

// VerifC09_OverQuotaTwoQueues: the whole over-quota division (divideOverQuotaResource: per-priority
// rounds of divideUpToFairShare with floor rounding, then the remainder hand-out) on two sibling
// queues whose over-quota weights and priorities are concrete menu entries (so the weighted product
// is symbolic x constant, IEEE semantics in the FP theory) and whose requests and the surplus are
// symbolic integers.
// BOUND: 2 queues, no limits, no quota; over-quota weights {1,2} x {1} (quick) / {1,2} x {1,2} (thorough); same or different priority; k-value 0; surplus and requests symbolic integers < 2^3 (quick) / 2^5 (thorough)
func VerifC09_OverQuotaTwoQueues() {
	res := rs.GpuResource
	bits := vr.Bound("overQuotaBits", 3, 5)
	total := vr.AnyFloatNat("surplus", bits)
	vr.Assume(total > 0)
	queues := map[common_info.QueueID]*rs.QueueAttributes{}
	var list []*rs.QueueAttributes
	for i, name := range []string{"a", "b"} {
		q := &rs.QueueAttributes{UID: common_info.QueueID(name), Name: name}
		s := q.ResourceShare(res)
		s.Deserved, s.MaxAllowed, s.FairShare = 0, -1, 0
		s.Request = vr.AnyFloatNat(name+".request", bits)
		if i == 0 {
			s.OverQuotaWeight = float64(vr.Choose(name+".weight", 2) + 1)
		} else {
			s.OverQuotaWeight = float64(vr.Choose(name+".weight", vr.Bound("weightsOfSecondQueue", 1, 2)) + 1)
			q.Priority = vr.Choose("b.priority", 2)
		}
		queues[q.UID] = q
		list = append(list, q)
	}
	left := divideOverQuotaResource(total, 0, queues, res)
	a, b := list[0].ResourceShare(res), list[1].ResourceShare(res)
	vr.Observe("a", a.FairShare)
	vr.Observe("b", b.FairShare)
	vr.Observe("left", left)
	vr.Assert(a.FairShare >= 0 && b.FairShare >= 0, "C09.surplus-grants-non-negative")
	vr.Assert(a.FairShare < a.Request+1 && b.FairShare < b.Request+1, "C09.fair-share-exceeds-request-by-less-than-a-unit")
	vr.Assert(left >= 0 && a.FairShare+b.FairShare+left == total, "C09.surplus-handed-out-never-exceeds-what-is-left")
	if left > 0 {
		vr.Assert(a.FairShare >= a.Request && b.FairShare >= b.Request, "C09.surplus-stays-only-if-every-weighted-queue-is-satisfied")
	}
	if list[1].Priority > list[0].Priority && b.FairShare < b.Request {
		vr.Assert(a.FairShare < 1, "C09.lower-priority-gets-at-most-the-rounding-remainder")
	}
	if list[1].Priority == list[0].Priority && a.FairShare < a.Request && b.FairShare < b.Request {
		if a.OverQuotaWeight >= b.OverQuotaWeight {
			vr.Assert(a.FairShare >= b.FairShare-1, "C09.surplus-monotone-in-weight-up-to-one-unit")
		}
		if b.OverQuotaWeight >= a.OverQuotaWeight {
			vr.Assert(b.FairShare >= a.FairShare-1, "C09.surplus-monotone-in-weight-up-to-one-unit")
		}
	}
	vr.Cover(a.FairShare > 0 && b.FairShare > 0 && left == 0, "C09.cover.both-queues-get-surplus")
}

// VerifC09_WeightTotalCountsTheCompetingQueues: the weight total that normalises over-quota weights
// (getTotalWeightsForUnsatisfied) is the sum of the weights of exactly the queues the rounds still
// serve - those that are not satisfied (isQueueSatisfied honours the limit): a queue sitting at its
// limit must not dilute the others' normalised weights.
// BOUND: 1..3 queues; deserved, limit (-1 = none), request, fair share integers < 2^20; weights integers in [0, 2^8)
func VerifC09_WeightTotalCountsTheCompetingQueues() {
	res := rs.GpuResource
	n := vr.Choose("queues", 3) + 1
	queues := map[common_info.QueueID]*rs.QueueAttributes{}
	want := 0.0
	for i := 0; i < n; i++ {
		q := c09Queue("q"+string(rune('0'+i)), res)
		s := q.ResourceShare(res)
		s.FairShare = vr.AnyFloatNat(q.Name+".fairShare", c09Bits)
		s.OverQuotaWeight = vr.AnyFloatNat(q.Name+".weight", 8)
		queues[q.UID] = q
		if !isQueueSatisfied(q, res) {
			want += s.OverQuotaWeight
		}
		vr.Assert(isQueueSatisfied(q, res) == !(c09Capped(s) > s.FairShare), "C09.satisfied-iff-capped-request-reached")
	}
	vr.Assert(getTotalWeightsForUnsatisfied(queues, res) == want, "C09.weight-total-is-the-sum-over-unsatisfied-queues")
}

// VerifC09_RemainderAcrossPriorities: three queues - one of higher over-quota priority, two of a
// lower one with equal weights (their round splits the amount in halves, so an odd amount leaves a
// rounding remainder at the LOWER priority only). The remainder hand-out must reach every priority
// level that recorded a remainder, whatever the levels above it recorded.
// BOUND: 3 queues without quota or limit, weights 1; priorities 1, 0, 0; surplus and requests symbolic integers < 2^3 (quick) / 2^4 (thorough); k-value 0
func VerifC09_RemainderAcrossPriorities() {
	res := rs.GpuResource
	bits := vr.Bound("remainderBits", 3, 4)
	total := vr.AnyFloatNat("surplus", bits)
	vr.Assume(total > 0)
	queues := map[common_info.QueueID]*rs.QueueAttributes{}
	var list []*rs.QueueAttributes
	for i, name := range []string{"hi", "lo1", "lo2"} {
		q := &rs.QueueAttributes{UID: common_info.QueueID(name), Name: name}
		s := q.ResourceShare(res)
		s.Deserved, s.MaxAllowed, s.FairShare, s.OverQuotaWeight = 0, -1, 0, 1
		s.Request = vr.AnyFloatNat(name+".request", bits)
		if i == 0 {
			q.Priority = 1
		}
		queues[q.UID] = q
		list = append(list, q)
	}
	left := divideOverQuotaResource(total, 0, queues, res)
	sum, allSatisfied := 0.0, true
	for _, q := range list {
		s := q.ResourceShare(res)
		vr.Assert(s.FairShare >= 0 && s.FairShare < s.Request+1, "C09.fair-share-exceeds-request-by-less-than-a-unit")
		sum += s.FairShare
		if s.FairShare < s.Request {
			allSatisfied = false
		}
	}
	vr.Observe("left", left)
	vr.Assert(left >= 0 && sum+left == total, "C09.surplus-handed-out-never-exceeds-what-is-left")
	if left > 0 {
		vr.Assert(allSatisfied, "C09.surplus-stays-only-if-every-weighted-queue-is-satisfied")
	}
	hi := list[0].ResourceShare(res)
	if hi.FairShare < hi.Request {
		vr.Assert(list[1].ResourceShare(res).FairShare+list[2].ResourceShare(res).FairShare < 1, "C09.lower-priority-gets-at-most-the-rounding-remainder")
	}
	vr.Cover(left == 0 && !allSatisfied, "C09.cover.surplus-exhausted-with-unsatisfied-queues")
}
