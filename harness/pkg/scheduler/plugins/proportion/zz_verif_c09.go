package proportion

import (
	metav1 "k8s.io/apimachinery/pkg/apis/meta/v1"
	"k8s.io/apimachinery/pkg/types"

	enginev2 "github.com/NVIDIA/KAI-scheduler/pkg/apis/scheduling/v2"
	"github.com/NVIDIA/KAI-scheduler/pkg/scheduler/api"
	"github.com/NVIDIA/KAI-scheduler/pkg/scheduler/api/common_info"
	"github.com/NVIDIA/KAI-scheduler/pkg/scheduler/api/queue_info"
	"github.com/NVIDIA/KAI-scheduler/pkg/scheduler/framework"
	rs "github.com/NVIDIA/KAI-scheduler/pkg/scheduler/plugins/proportion/resource_share"
	vr "github.com/NVIDIA/KAI-scheduler/pkg/zz_verifrt"
)

// VerifC09_ChildrenGetTheirQuotaStep: the hierarchy recursion of the real setFairShare /
// setFairShareForQueues (which runs the real resource division at every level) on a parent with one
// child: every queue's fair share is at least min(deserved quota, request capped by limit) at BOTH
// levels - also when the parent itself ends with a fair share of zero. The states are restricted to
// those where no over-quota surplus exists at either level, so that only the quota step of the
// division runs (the weight-normalised surplus step is the un-encodable part, DESIGN.md C09).
// BOUND: tree P <- C; GPU dimension (cpu and memory: nothing deserved or requested); total, deserved quotas and the child's request symbolic integers < 2^16; no limits
// ASSUME: no surplus: total <= the parent's deserved quota or the parent requests no more than it deserves; the parent's fair share does not exceed what the child gets in the quota step
func VerifC09_ChildrenGetTheirQuotaStep() {
	P := &rs.QueueAttributes{UID: "P", Name: "P", ChildQueues: []common_info.QueueID{"C"}}
	C := &rs.QueueAttributes{UID: "C", Name: "C", ParentQueue: "P"}
	for _, q := range []*rs.QueueAttributes{P, C} {
		for _, r := range rs.AllResources {
			s := q.ResourceShare(r)
			s.MaxAllowed, s.OverQuotaWeight = -1, 1
		}
	}
	total := vr.AnyFloatNat("total", 16)
	p, c := &P.GPU, &C.GPU
	p.Deserved = vr.AnyFloatNat("P.deserved", 16)
	c.Deserved = vr.AnyFloatNat("C.deserved", 16)
	c.Request = vr.AnyFloatNat("C.request", 16)
	p.Request = c.Request // a parent requests what its children request
	// quota step at the top: P gets min(deserved, request); no surplus is left for the over-quota step
	pQuota := p.Deserved
	if p.Request < pQuota {
		pQuota = p.Request
	}
	vr.Assume(total <= pQuota || p.Request <= p.Deserved)
	cQuota := c.Deserved
	if c.Request < cQuota {
		cQuota = c.Request
	}
	vr.Assume(pQuota <= cQuota) // nothing left over at the child level either
	pp := &proportionPlugin{queues: map[common_info.QueueID]*rs.QueueAttributes{"P": P, "C": C},
		totalResource: rs.ResourceQuantities{rs.GpuResource: total, rs.CpuResource: 0, rs.MemoryResource: 0}, kValue: 1}
	pp.setFairShare()
	vr.Observe("P.fairShare", p.FairShare)
	vr.Observe("C.fairShare", c.FairShare)
	vr.Assert(p.FairShare >= pQuota, "C09.parent-fair-share-at-least-min-of-deserved-and-request")
	vr.Assert(c.FairShare >= cQuota, "C09.child-fair-share-at-least-min-of-deserved-and-request")
	vr.Cover(p.FairShare == 0 && cQuota > 0, "C09.cover.parent-with-zero-fair-share-and-entitled-child")
}

// VerifC09_QueueSettingsReachTheirOwnResource: what the division divides by is what the Queue object
// configures - per resource: the real queue_info.NewQueueInfo + proportionPlugin.createQueueResourceAttrs
// give every resource ITS OWN quota, limit and over-quota weight (memory scaled from megabytes, -1 kept
// as the unlimited sentinel).
// BOUND: one queue; quota, limit (-1 or >= 0) and over-quota weight of cpu, memory and GPU independent symbolic integers < 2^10
func VerifC09_QueueSettingsReachTheirOwnResource() {
	in := func(name string) enginev2.QueueResource {
		r := enginev2.QueueResource{Quota: vr.AnyFloatInt(name+".quota", 10), Limit: vr.AnyFloatInt(name+".limit", 10), OverQuotaWeight: vr.AnyFloatNat(name+".weight", 10)}
		vr.Assume(r.Quota >= -1 && r.Limit >= -1)
		return r
	}
	obj := &enginev2.Queue{ObjectMeta: metav1.ObjectMeta{Name: "q", UID: types.UID("q")},
		Spec: enginev2.QueueSpec{Resources: &enginev2.QueueResources{CPU: in("cpu"), Memory: in("memory"), GPU: in("gpu")}}}
	qi := queue_info.NewQueueInfo(obj)
	ssn := &framework.Session{ClusterInfo: &api.ClusterInfo{Queues: map[common_info.QueueID]*queue_info.QueueInfo{qi.UID: qi}}}
	ssn.ClusterInfo.QueueResourceUsage.Queues = map[common_info.QueueID]queue_info.QueueUsage{}
	pp := &proportionPlugin{queues: map[common_info.QueueID]*rs.QueueAttributes{}}
	pp.createQueueResourceAttrs(ssn)
	a := pp.queues["q"]
	want := obj.Spec.Resources
	vr.Assert(a.CPU.Deserved == want.CPU.Quota && a.CPU.MaxAllowed == want.CPU.Limit && a.CPU.OverQuotaWeight == want.CPU.OverQuotaWeight, "C09.cpu-division-uses-the-queues-cpu-settings")
	vr.Assert(a.GPU.Deserved == want.GPU.Quota && a.GPU.MaxAllowed == want.GPU.Limit && a.GPU.OverQuotaWeight == want.GPU.OverQuotaWeight, "C09.gpu-division-uses-the-queues-gpu-settings")
	mem := func(v float64) float64 {
		if v < 0 {
			return -1
		}
		return v * 1000 * 1000
	}
	vr.Assert(a.Memory.Deserved == mem(want.Memory.Quota) && a.Memory.MaxAllowed == mem(want.Memory.Limit) && a.Memory.OverQuotaWeight == want.Memory.OverQuotaWeight, "C09.memory-division-uses-the-queues-memory-settings")
}
