package queue_order

import (
	"github.com/NVIDIA/KAI-scheduler/pkg/scheduler/api/common_info"
	"github.com/NVIDIA/KAI-scheduler/pkg/scheduler/api/podgroup_info"
	rs "github.com/NVIDIA/KAI-scheduler/pkg/scheduler/plugins/proportion/resource_share"
	vr "github.com/NVIDIA/KAI-scheduler/pkg/zz_verifrt"
)

func c15Queue(name string) *rs.QueueAttributes {
	q := &rs.QueueAttributes{UID: common_info.QueueID(name), Name: name}
	for _, r := range rs.AllResources {
		s := q.ResourceShare(r)
		n := name + "." + string(r)
		s.Deserved = vr.AnyFloatNat(n+".deserved", 6)
		s.MaxAllowed = -1
		s.FairShare = vr.AnyFloatNat(n+".fairShare", 6)
		s.Allocated = vr.AnyFloatNat(n+".allocated", 6)
	}
	return q
}

// VerifC15_QueueOrderAgreesWithReclaim: the queue order is the other half of the no-livelock
// mechanism: a queue that is above its fair share in every resource (the queue reclaim takes from)
// is served after a queue that is not; otherwise the reclaimed queue is served first, gets its pod
// back and is reclaimed from again. Decided on the real GetQueueOrderResult for two queues with
// every share symbolic in all three resources; antisymmetry of the order is asserted too.
// BOUND: two queues; deserved, fair share, allocated symbolic integers < 2^6 in cpu, memory and GPU; no pending job attached (the first ordering criterion does not look at jobs)
func VerifC15_QueueOrderAgreesWithReclaim() {
	l, r := c15Queue("l"), c15Queue("r")
	over := func(q *rs.QueueAttributes) bool {
		for _, res := range rs.AllResources {
			s := q.ResourceShare(res)
			if !(s.FairShare < s.Allocated) {
				return false
			}
		}
		return true
	}
	lOver, rOver := over(l), over(r)
	if lOver == rOver {
		return // later criteria look at the jobs; not this kernel's subject
	}
	var noJob *podgroup_info.PodGroupInfo
	defer func() {
		// the later criteria dereference the jobs; with lOver != rOver the first criterion must decide
		if rec := recover(); rec != nil {
			vr.Assert(false, "C15.queue-above-fair-share-everywhere-is-served-after-one-that-is-not")
		}
	}()
	res := GetQueueOrderResult(l, r, noJob, noJob, nil, nil, nil, nil, rs.ResourceQuantities{}, 100)
	rev := GetQueueOrderResult(r, l, noJob, noJob, nil, nil, nil, nil, rs.ResourceQuantities{}, 100)
	vr.Observe("res", res)
	if rOver {
		vr.Assert(res == lQueuePrioritized, "C15.queue-above-fair-share-everywhere-is-served-after-one-that-is-not")
	} else {
		vr.Assert(res == rQueuePrioritized, "C15.queue-above-fair-share-everywhere-is-served-after-one-that-is-not")
	}
	vr.Assert(rev == -res, "C15.queue-order-antisymmetric")
}
