package proportion

import (
	enginev2alpha2 "github.com/NVIDIA/KAI-scheduler/pkg/apis/scheduling/v2alpha2"
	"github.com/NVIDIA/KAI-scheduler/pkg/scheduler/actions/allocate"
	"github.com/NVIDIA/KAI-scheduler/pkg/scheduler/api/pod_info"
	"github.com/NVIDIA/KAI-scheduler/pkg/scheduler/api/pod_status"
	"github.com/NVIDIA/KAI-scheduler/pkg/scheduler/api/resource_info"
	vs "github.com/NVIDIA/KAI-scheduler/pkg/scheduler/zz_verifsched"
	vr "github.com/NVIDIA/KAI-scheduler/pkg/zz_verifrt"
)

// VerifC03_AllocateGangOfRunningJob: a workload that already runs one pod set ("lead", 1 pod) gets
// its second pod set ("workers", a gang of two, minimum 2) scheduled while part of the node is held
// by a terminating pod: the gang is bound as a whole, nominated as a whole (nothing of it bound), or
// left pending - also when the workload is not new to the cluster (a "scale-up").
// BOUND: 1 node (symbolic cpu < 2^8); job j0 = pod set lead (1 running pod, 16 milli-cpu) + pod set workers (2 pending pods, one shared symbolic cpu request, minimum 2); one terminating pod of another queue with symbolic cpu
func VerifC03_AllocateGangOfRunningJob() {
	w := &actWorld{vm: resource_info.NewResourceVectorMap()}
	w.queues = []actQueue{{name: "d", parent: "", deserved: -1, limit: -1}, {name: "qa", parent: "d", deserved: 1 << 10, limit: -1}, {name: "qb", parent: "d", deserved: 1 << 10, limit: -1}}
	w.addNode("n0", vr.AnyFloatNat("n0.cpu", 8))
	cpu := vr.AnyFloatNat("worker.cpu", 8)
	vr.Assume(cpu >= 10)
	tasks := []*pod_info.PodInfo{
		vs.NewTask("j0-lead", "j0", "lead", 16, 0, vs.GpuSpec{}, pod_status.Running, "n0", w.vm),
		vs.NewTask("j0-w0", "j0", "workers", cpu, 0, vs.GpuSpec{}, pod_status.Pending, "", w.vm),
		vs.NewTask("j0-w1", "j0", "workers", cpu, 0, vs.GpuSpec{}, pod_status.Pending, "", w.vm),
	}
	j := &actJob{name: "j0", queue: "qa", preempt: true, cpu: []float64{16, cpu, cpu}, tasks: tasks}
	j.job = vs.NewJobWithSubGroups("j0", "qa", true, 0, 3,
		[]enginev2alpha2.SubGroup{{Name: "lead", MinMember: 1}, {Name: "workers", MinMember: 2}}, w.vm, tasks...)
	w.jobs = append(w.jobs, j)
	ecpu := vr.AnyFloatNat("e0.cpu", 8)
	vr.Assume(ecpu >= 10)
	w.addJob("e0", "qb", true, 0, 0, 1, []float64{ecpu}, []pod_status.PodStatus{pod_status.Releasing}, []string{"n0"})
	w.open()
	w.symbolicFairShares(10)
	allocate.New().Execute(w.ssn)
	active, bound, nominated := 0, 0, 0
	for _, t := range tasks[1:] {
		if t.Status != pod_status.Pending {
			active++
		}
		if w.boundTask(t) {
			bound++
		}
		if t.Status == pod_status.Pipelined {
			nominated++
		}
	}
	vr.Observe("workers.active", active)
	vr.Observe("workers.bound", bound)
	vr.Assert(active == 0 || active == 2, "C03.allocate-action-places-whole-gang-or-nothing")
	vr.Assert(bound == 0 || bound == 2, "C03.allocate-action-binds-whole-gang-or-nothing")
	vr.Assert(nominated == 0 || bound == 0, "C03.partly-waiting-gang-is-nominated-as-a-whole")
	vr.Cover(nominated == 2, "C03.cover.scale-up-gang-nominated")
	vr.Cover(bound == 2, "C03.cover.scale-up-gang-bound")
}
