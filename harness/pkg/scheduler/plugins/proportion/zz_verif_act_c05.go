package proportion

import (
	"github.com/NVIDIA/KAI-scheduler/pkg/scheduler/actions/allocate"
	"github.com/NVIDIA/KAI-scheduler/pkg/scheduler/api/pod_status"
	vs "github.com/NVIDIA/KAI-scheduler/pkg/scheduler/zz_verifsched"
	vr "github.com/NVIDIA/KAI-scheduler/pkg/zz_verifrt"
)

// actAllocateRun executes the real allocate action and asserts the action-level obligations of the
// given property on the outcome.
func actAllocateRun(prop string, o actOpts) {
	w := actAllocateWorld(o)
	for _, q := range w.queues {
		if q.limit >= 0 {
			vr.Assume(w.queueAllocated(q.name, false) <= q.limit) // reachable snapshot: limits held so far
		}
	}
	allocate.New().Execute(w.ssn)
	for i, aj := range w.jobs {
		vr.Observe(vs.Name("placed", i), w.placed(aj))
	}
	vr.Observe("binds", len(w.cache.binds))
	switch prop {
	case "C05":
		// work conservation: no ready pending job fits entirely on some node's idle cpu not reserved for
		// nominated pods while its queues admit it
		for _, aj := range w.jobs {
			if w.placed(aj) || !w.admits(aj) || len(aj.tasks) != 1 {
				continue
			}
			for n, node := range w.nodes {
				free := w.ncpu[n] - w.usedOn(node.Name) - w.reservedOn(node.Name)
				vr.Assert(!(aj.cpu[0] <= free), "C05.no-runnable-job-left-pending-after-allocate")
			}
		}
	case "C16":
		for _, a := range w.jobs {
			for _, b := range w.jobs {
				if a == b || a.queue != b.queue || a.preempt != b.preempt || len(a.tasks) != 1 || len(b.tasks) != 1 {
					continue
				}
				if a.tasks[0].Status == pod_status.Running || a.tasks[0].Status == pod_status.Releasing || b.tasks[0].Status == pod_status.Running || b.tasks[0].Status == pod_status.Releasing {
					continue
				}
				if a.cpu[0] != b.cpu[0] { // identical pod template
					continue
				}
				if a.priority > b.priority {
					vr.Assert(!(w.placed(b) && !w.placed(a)), "C16.lower-priority-never-placed-while-higher-waits")
				}
				if a.priority == b.priority && a.created < b.created {
					vr.Assert(!(w.placed(b) && !w.placed(a)), "C16.younger-never-placed-while-older-waits")
				}
			}
		}
	case "C01":
		for n, node := range w.nodes {
			vr.Assert(w.usedOn(node.Name) <= w.ncpu[n], "C01.allocate-action-never-oversubscribes-a-node")
		}
		// what was bound fitted on capacity that was really free (not merely terminating)
		for n, node := range w.nodes {
			boundNow, terminating := 0.0, 0.0
			for _, aj := range w.jobs {
				for i, t := range aj.tasks {
					if t.NodeName != node.Name {
						continue
					}
					if w.boundTask(t) {
						boundNow += aj.cpu[i]
					}
					if t.Status == pod_status.Releasing {
						terminating += aj.cpu[i]
					}
				}
			}
			other := w.usedOn(node.Name) - boundNow - terminating
			vr.Assert(boundNow <= w.ncpu[n]-other-terminating, "C01.allocate-action-binds-only-onto-free-capacity")
		}
	case "C03":
		// gang integrity: each pod set ends with at least its minimum of active pods or none; a gang of
		// which a part must wait for terminating capacity is nominated as a whole, nothing is bound
		for _, aj := range w.jobs {
			if len(aj.tasks) < 2 {
				continue
			}
			active, bound, nominated := 0, 0, 0
			for _, t := range aj.tasks {
				if t.Status == pod_status.Failed || t.Status == pod_status.Succeeded {
					continue // a dead member does not count towards the minimum
				}
				if t.Status != pod_status.Pending {
					active++
				}
				if w.boundTask(t) {
					bound++
				}
				if t.Status == pod_status.Pipelined {
					nominated++
				}
			}
			min := len(aj.tasks) // minMember == gang size
			vr.Assert(active == 0 || active >= min, "C03.allocate-action-places-whole-gang-or-nothing")
			vr.Assert(bound == 0 || bound >= min, "C03.allocate-action-binds-whole-gang-or-nothing")
			vr.Assert(nominated == 0 || bound == 0, "C03.partly-waiting-gang-is-nominated-as-a-whole")
			vr.Cover(nominated > 0, "C03.cover.gang-nominated")
			vr.Cover(bound > 0, "C03.cover.gang-bound")
		}
	case "C08":
		for _, q := range w.queues {
			if q.limit >= 0 {
				vr.Assert(w.queueAllocated(q.name, false) <= q.limit, "C08.allocate-action-keeps-queue-within-limit")
			}
			if q.deserved >= 0 {
				vr.Assert(w.queueAllocated(q.name, true) <= q.deserved, "C08.allocate-action-keeps-non-preemptible-within-quota")
			}
		}
	}
}

// VerifC05_AllocateWorkConservation: the real allocate action on a real session.
// BOUND: 1..2 nodes (symbolic cpu < 2^8), department + 2 leaf queues (symbolic deserved quota, limits unlimited or symbolic), 2 (quick) / 3 (thorough) pending single-pod jobs with symbolic cpu in [10, 2^8), queue and preemptibility (equal priorities, distinct ages); cpu dimension only; fair shares are inputs constrained by the division contract (DESIGN.md C05)
// ASSUME: fair share of each queue within [min(deserved, capped request), capped request]
func VerifC05_AllocateWorkConservation() {
	actAllocateRun("C05", actOpts{nNodes: vr.Choose("nodes", 2) + 1, nJobs: vr.Bound("jobs", 2, 3), bits: 8, symLimits: true, symPreempt: true, sameQueue: true})
}

// VerifC16_AllocateOrder: three identical single-pod jobs of one leaf queue compete for one node in
// the real allocate action; priorities range over all of int32, creation times are symbolic.
// BOUND: 1 node (symbolic cpu < 2^8), 1 leaf queue under a department, 3 pending jobs with one shared symbolic cpu request, symbolic int32 priorities and creation seconds in [0, 64)
func VerifC16_AllocateOrder() {
	actAllocateRun("C16", actOpts{nNodes: 1, nJobs: 3, bits: 8, sameQueue: true, sameCpu: true, symPriority: true, symCreated: true})
}

// VerifC01_AllocateAction: the real allocate action never oversubscribes a node and binds only onto
// capacity that is really free, with pods already running or terminating on the node.
// BOUND: 1..2 nodes (symbolic cpu < 2^8), 0..1 existing pod on n0 (running or terminating, symbolic cpu), 2 pending single-pod jobs in one leaf queue
func VerifC01_AllocateAction() {
	actAllocateRun("C01", actOpts{nNodes: vr.Choose("nodes", 2) + 1, nJobs: 2, bits: 8, sameQueue: true, existing: vr.Choose("existing", 2)})
}

// VerifC03_AllocateGang: a gang of two (minMember 2) and a single-pod job, with a pod terminating or
// running on the node: the gang is bound as a whole, nominated as a whole, or left alone.
// BOUND: 1..2 nodes, gang j0 of 2 tasks (minMember 2, one shared symbolic cpu request) + 1 single-pod job, 0..1 existing pod on n0 running or terminating
func VerifC03_AllocateGang() {
	actAllocateRun("C03", actOpts{nNodes: vr.Choose("nodes", 2) + 1, nJobs: 2, bits: 8, sameQueue: true, existing: vr.Choose("existing", 2), gang: 2})
}

// VerifC03_AllocateGangWithDeadMember: a gang of three (minMember 3) one of whose members may have
// failed and not been recreated: the two that are left are never bound on their own.
// BOUND: 1 node, gang of 3 tasks (minMember 3, last member pending or failed), one shared symbolic cpu request
func VerifC03_AllocateGangWithDeadMember() {
	actAllocateRun("C03", actOpts{nNodes: 1, nJobs: 1, bits: 8, sameQueue: true, gang: 3, gangDead: true})
}

// VerifC08_AllocateAction: queue limits and the non-preemptible quota rule hold at every level after
// the real allocate action.
// BOUND: 1 node, 0..1 pod of qa already running or being bound (bound plus nominated pods count), 2 pending single-pod jobs in leaf queue qa under department d; limits of d and qa unlimited or symbolic, deserved quota of qa symbolic, preemptibility explored
func VerifC08_AllocateAction() {
	actAllocateRun("C08", actOpts{nNodes: 1, nJobs: 2, bits: 8, sameQueue: true, symLimits: true, symPreempt: true,
		existing: vr.Choose("existing", 2), existingInQa: true, existingSt: []pod_status.PodStatus{pod_status.Running, pod_status.Binding}})
}

// VerifC16_AllocateOrderWithQueueDepth: the same with a configured queue depth of 2 and a node that
// can hold any number of the jobs: the two jobs the action considers are the best two by priority,
// then age - a lower-priority / younger identical job is never placed while a better one stays pending.
// BOUND: 1 node (symbolic cpu), 1 leaf queue, 3 pending identical jobs, queue depth 2, symbolic int32 priorities and creation seconds
func VerifC16_AllocateOrderWithQueueDepth() {
	actAllocateRun("C16", actOpts{nNodes: 1, nJobs: 3, bits: 8, sameQueue: true, sameCpu: true, symPriority: true, symCreated: true, queueDepth: 2})
}
