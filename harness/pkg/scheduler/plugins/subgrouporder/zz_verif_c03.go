package subgrouporder

import (
	"fmt"

	v1 "k8s.io/api/core/v1"
	metav1 "k8s.io/apimachinery/pkg/apis/meta/v1"
	"k8s.io/apimachinery/pkg/types"

	commonconstants "github.com/NVIDIA/KAI-scheduler/pkg/common/constants"
	"github.com/NVIDIA/KAI-scheduler/pkg/scheduler/api/pod_info"
	"github.com/NVIDIA/KAI-scheduler/pkg/scheduler/api/pod_status"
	"github.com/NVIDIA/KAI-scheduler/pkg/scheduler/api/podgroup_info"
	"github.com/NVIDIA/KAI-scheduler/pkg/scheduler/api/podgroup_info/subgroup_info"
	"github.com/NVIDIA/KAI-scheduler/pkg/scheduler/api/resource_info"
	"github.com/NVIDIA/KAI-scheduler/pkg/scheduler/framework"
	vr "github.com/NVIDIA/KAI-scheduler/pkg/zz_verifrt"
)

type c03Set struct {
	name  string
	min   int32
	tasks []*pod_info.PodInfo
}

func c03Task(uid, set string, st pod_status.PodStatus, vm *resource_info.ResourceVectorMap) *pod_info.PodInfo {
	pod := &v1.Pod{ObjectMeta: metav1.ObjectMeta{Name: uid, Namespace: "ns", UID: types.UID(uid),
		Annotations: map[string]string{commonconstants.PodGroupAnnotationForPod: "job"},
		Labels:      map[string]string{commonconstants.SubGroupLabelKey: set}}}
	pod.Spec.Containers = []v1.Container{{Name: "c"}}
	t := pod_info.NewTaskInfo(pod, nil, vm)
	t.Status = st
	if st != pod_status.Pending {
		t.NodeName = "n1"
	}
	return t
}

var c03Statuses = []pod_status.PodStatus{pod_status.Pending, pod_status.Running, pod_status.Releasing, pod_status.Pipelined}

// c03Job: K pod sets of n tasks each; every task's status and every pod set's minAvailable (in
// [1, n]) are inputs.
func c03Job(K, n int, statuses []pod_status.PodStatus) (*podgroup_info.PodGroupInfo, []*c03Set) {
	vm := resource_info.NewResourceVectorMap()
	j := podgroup_info.NewPodGroupInfoWithVectorMap("job", vm)
	root := subgroup_info.NewSubGroupSet(subgroup_info.RootSubGroupSetName, nil)
	j.RootSubGroupSet = root
	j.PodSets = map[string]*subgroup_info.PodSet{}
	var sets []*c03Set
	for s := 0; s < K; s++ {
		name := fmt.Sprintf("set%d", s)
		min := vr.AnyInt32(name+".min", 8)
		vr.Assume(min >= 1 && int(min) <= n)
		ps := subgroup_info.NewPodSet(name, min, nil)
		root.AddPodSet(ps)
		j.PodSets[name] = ps
		cs := &c03Set{name: name, min: min}
		for i := 0; i < n; i++ {
			uid := fmt.Sprintf("%s-t%d", name, i)
			st := statuses[vr.Choose(uid+".status", len(statuses))]
			t := c03Task(uid, name, st, vm)
			t.Job = "job"
			j.AddTaskInfo(t)
			cs.tasks = append(cs.tasks, t)
		}
		sets = append(sets, cs)
	}
	return j, sets
}

// c03SetOrder is the session's real pod-set order: the real Session.PodSetOrderFn with this
// plugin's real PodSetOrderFn registered (as OnSessionOpen does).
var c03Ssn = func() *framework.Session {
	s := &framework.Session{}
	s.AddPodSetOrderFn(PodSetOrderFn)
	return s
}()

func c03SetOrder(l, r interface{}) bool { return c03Ssn.PodSetOrderFn(l, r) }
func c03TaskOrder(l, r interface{}) bool {
	return l.(*pod_info.PodInfo).UID < r.(*pod_info.PodInfo).UID
}

func (s *c03Set) count(pred func(pod_status.PodStatus) bool) int {
	n := 0
	for _, t := range s.tasks {
		if pred(t.Status) {
			n++
		}
	}
	return n
}

// VerifC03_TasksToAllocate: for a pod set below its minimum the allocation attempt contains
// exactly (min - active) of its pending tasks - never fewer (a partial gang) - unless it does not
// have that many pending tasks (then the job is not ready for scheduling); a job whose pod sets
// are all satisfied grows by at most one task per attempt.
// BOUND: K = 1..2 pod sets x n = 2 tasks (quick) / 3 tasks (thorough); minAvailable symbolic in [1, n]; statuses Pending/Running/Releasing/Pipelined
func VerifC03_TasksToAllocate() {
	K := vr.Choose("sets", 2) + 1
	n := vr.Bound("tasksPerSet", 2, 3)
	j, sets := c03Job(K, n, c03Statuses)
	chosen := podgroup_info.GetTasksToAllocate(j, c03SetOrder, c03TaskOrder, true)
	vr.Observe("chosen", len(chosen))
	seen := map[string]bool{}
	allSatisfied := true
	for _, t := range chosen {
		vr.Assert(t.Status == pod_status.Pending, "C03.allocates-only-pending")
		vr.Assert(!seen[string(t.UID)], "C03.allocates-each-task-once")
		seen[string(t.UID)] = true
	}
	for _, s := range sets {
		active := s.count(pod_status.IsActiveAllocatedStatus)
		pending := s.count(func(st pod_status.PodStatus) bool { return st == pod_status.Pending })
		c := 0
		for _, t := range chosen {
			if t.SubGroupName == s.name {
				c++
			}
		}
		if active < int(s.min) {
			allSatisfied = false
			need := int(s.min) - active
			if pending >= need {
				vr.Assert(c == need, "C03.below-minimum-gets-exactly-the-missing-members")
			} else {
				vr.Assert(!j.IsReadyForScheduling() || c == pending, "C03.not-enough-pending-means-not-ready")
			}
		}
	}
	if allSatisfied {
		vr.Assert(len(chosen) <= 1, "C03.satisfied-job-grows-by-at-most-one")
	}
}

// VerifC03_TasksToEvict: the eviction unit of a job keeps every pod set at or above its minimum
// (elastic shrink) or contains every active-allocated task of the job.
// BOUND: K = 1..2 pod sets x n = 3 tasks (quick) / 4 tasks (thorough); minAvailable symbolic in [1, n]; statuses Pending/Running/Releasing
func VerifC03_TasksToEvict() {
	K := vr.Choose("sets", 2) + 1
	n := vr.Bound("evictTasksPerSet", 3, 4)
	j, sets := c03Job(K, n, c03Statuses[:3])
	victims, partial := podgroup_info.GetTasksToEvict(j, c03SetOrder, c03TaskOrder)
	vr.Observe("victims", len(victims))
	vr.Observe("partial", partial)
	totalActive, keepsAll := 0, true
	seen := map[string]bool{}
	for _, t := range victims {
		vr.Assert(pod_status.IsActiveAllocatedStatus(t.Status), "C03.evicts-only-active")
		vr.Assert(!seen[string(t.UID)], "C03.evicts-each-task-once")
		seen[string(t.UID)] = true
	}
	for _, s := range sets {
		active := s.count(pod_status.IsActiveAllocatedStatus)
		totalActive += active
		e := 0
		for _, t := range victims {
			if t.SubGroupName == s.name {
				e++
			}
		}
		// a pod set that was at/above its minimum must stay so, one below it is not made worse by the definition
		if active >= int(s.min) && active-e < int(s.min) {
			keepsAll = false
		}
	}
	vr.Assert(keepsAll || len(victims) == totalActive, "C03.eviction-keeps-minimums-or-takes-all")
	vr.Assert(partial == (len(victims) < totalActive), "C03.partial-flag-truthful")
}

// VerifC03_ShouldPipeline: if a pod set has a nominated task and fewer than its minimum of
// (other) active-allocated tasks, the whole job must be nominated (ShouldPipelineJob is true).
// BOUND: as VerifC03_TasksToAllocate, statuses Pending/Running/Releasing/Pipelined plus Allocated
func VerifC03_ShouldPipeline() {
	K := vr.Choose("sets", 2) + 1
	n := vr.Bound("tasksPerSet", 2, 3)
	sts := append(append([]pod_status.PodStatus{}, c03Statuses...), pod_status.Allocated)
	j, sets := c03Job(K, n, sts)
	must := false
	for _, s := range sets {
		pipelined := s.count(func(st pod_status.PodStatus) bool { return st == pod_status.Pipelined })
		activeNotPipelined := s.count(func(st pod_status.PodStatus) bool {
			return pod_status.IsActiveAllocatedStatus(st) && st != pod_status.Pipelined
		})
		if pipelined > 0 && activeNotPipelined < int(s.min) {
			must = true
		}
	}
	got := j.ShouldPipelineJob()
	vr.Observe("shouldPipeline", got)
	vr.Assert(got == must, "C03.nominate-whole-gang-iff-a-set-waits-below-minimum")
}
